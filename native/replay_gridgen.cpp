// Native replay of a grid-generation violation (C18 / C17): the exponents of the verifier job are given to the REAL generating
// PolarGrid constructor (uniform division) and to coarseningGrid; the obligations are re-checked in double precision with a
// relative tolerance of 1e-12 (the verifier decides them in exact arithmetic).
// usage: replay_gridgen nr_exp ntheta_exp divideBy2 [R0 Rmax]       exit 1 if a clause fails natively
#include <cmath>
#include <cstdio>
#include <cstdlib>
#include <vector>
#include "PolarGrid/polargrid.h"
int main(int argc, char** argv)
{
    if (argc < 4) return 2;
    const int nr_exp = atoi(argv[1]), nt_exp = atoi(argv[2]), d = atoi(argv[3]);
    const double R0 = argc > 4 ? atof(argv[4]) : 0.17, R = argc > 5 ? atof(argv[5]) : 1.3, tol = 1e-12;
    int fails = 0;
    auto chk = [&](bool ok, const char* what, int i) { if (!ok) { if (fails < 8) std::printf("[FAIL] %s [%d]\n", what, i); fails++; } };
    try {
        PolarGrid g(R0, R, nr_exp, nt_exp, 0.0, 0, d);
        const int nr = g.nr(), nt = g.ntheta();
        std::printf("grid %d x %d\n", nr, nt);
        chk(nr == ((1 << nr_exp) << d) + 1, "number of radii", nr);
        chk(g.radius(0) == R0, "first radius is exactly R0", 0);
        chk(g.radius(nr - 1) == R, "last radius is exactly Rmax", nr - 1);
        for (int i = 0; i + 1 < nr; i++) chk(g.radius(i) < g.radius(i + 1), "radii strictly increasing", i);
        for (int i = 1; i + 1 < nr; i += 2) chk(std::fabs(2 * g.radius(i) - g.radius(i - 1) - g.radius(i + 1)) <= tol * R, "fine radius is the midpoint of its coarse neighbours", i);
        chk(g.theta(0) == 0.0, "first angle is zero", 0);
        chk(std::fabs(g.theta(nt) - 2 * M_PI) <= tol, "last angle is two pi", nt);
        for (int j = 0; j <= nt; j++) chk(std::fabs(g.theta(j) - j * 2 * M_PI / nt) <= 10 * tol, "angles uniform", j);
        for (int j = 0; j < nt / 2; j++) chk(std::fabs(g.theta(j + nt / 2) - g.theta(j) - M_PI) <= 10 * tol, "angle has its antipode", j);
        for (int i = 0; i + 1 < nr; i++) chk(std::fabs(g.radialSpacing(i) - (g.radius(i + 1) - g.radius(i))) <= tol && g.radialSpacing(i) > 0, "radial spacing is the coordinate difference", i);
        for (int j = 0; j < nt; j++) chk(std::fabs(g.angularSpacing(j) - (g.theta(j + 1) - g.theta(j))) <= tol && g.angularSpacing(j) > 0, "angular spacing is the coordinate difference", j);
        if (d > 0) {
            PolarGrid p(R0, R, nr_exp, nt_exp, 0.0, 0, d - 1);
            chk(2 * (p.nr() - 1) == nr - 1 && 2 * p.ntheta() == nt, "sizes of the grid with one bisection less", p.nr());
            for (int i = 0; i < p.nr() && 2 * i < nr; i++) chk(std::fabs(g.radius(2 * i) - p.radius(i)) <= tol * R, "grid of one bisection less is the every-second-node subgrid (radii)", i);
            for (int j = 0; j <= p.ntheta() && 2 * j <= nt; j++) chk(std::fabs(g.theta(2 * j) - p.theta(j)) <= 10 * tol, "grid of one bisection less is the every-second-node subgrid (angles)", j);
        }
        PolarGrid c = coarseningGrid(g);
        chk(c.nr() == (nr + 1) / 2 && c.ntheta() == nt / 2, "coarse grid sizes", c.nr());
        for (int i = 0; i < c.nr(); i++) chk(c.radius(i) == g.radius(2 * i), "coarsening keeps every second radius", i);
        for (int j = 0; j <= c.ntheta(); j++) chk(c.theta(j) == g.theta(2 * j), "coarsening keeps every second angle", j);
    } catch (const std::exception& e) { std::printf("[FAIL] exception for an accepted parameter combination: %s\n", e.what()); fails++; }
    std::printf("%d native check(s) failed\n", fails);
    return fails ? 1 : 0;
}
