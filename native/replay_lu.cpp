// Native replay of a C16 violation: the verifier's counterexample fixes dimension, sparsity pattern and storage order (its real
// values are not printed by CBMC's SMT back end), so the REAL SparseMatrixCSR<double> / SparseLUSolver<double> are run on that
// pattern with a deterministic battery of strictly diagonally dominant value sets: O(1) values, rows scaled by 10^k for
// k in [-6, 6], and rows scaled up to 10^14.  Pivots below 1e-12 are NOT in the battery (known finding F14 would fire there).
// usage: replay_lu n  (per row: count col kind col kind ...)   kind 1 = value, 0 = explicitly stored zero
// exit 1 if some system is not solved (|A x - b| large) or the library terminates the process
#include <cmath>
#include <cstdio>
#include <cstdlib>
#include <vector>
#include "LinearAlgebra/csr_matrix.h"
#include "LinearAlgebra/sparseLUSolver.h"
#include "LinearAlgebra/vector.h"
static unsigned long long st = 88172645463325252ULL;
static double rnd() { st ^= st << 13; st ^= st >> 7; st ^= st << 17; return (double)(st % 2000001ULL) / 1000000.0 - 1.0; }
static int cur_case = -1;
static void at_exit() { if (cur_case >= 0) std::printf("[FAIL] the library terminated the process while solving battery case %d (non-vanishing pivots)\n", cur_case); }
int main(int argc, char** argv)
{
    if (argc < 3) return 2;
    int a = 1; const int n = atoi(argv[a++]);
    std::vector<std::vector<std::pair<int, int>>> rows(n);
    for (int i = 0; i < n; i++) {
        if (a >= argc) return 2;
        const int cnt = atoi(argv[a++]);
        for (int k = 0; k < cnt; k++) { if (a + 1 >= argc) return 2; int c = atoi(argv[a++]); int kind = atoi(argv[a++]); rows[i].push_back({c, kind}); }
    }
    std::atexit(at_exit);
    int fails = 0;
    for (int cs = 0; cs < 60; cs++) {
        std::vector<std::vector<double>> D(n, std::vector<double>(n, 0.0));
        std::vector<double> scale(n, 1.0);
        for (int i = 0; i < n; i++) {
            if (cs >= 20 && cs < 40) scale[i] = std::pow(10.0, (int)(rnd() * 6.5));
            if (cs >= 40) scale[i] = std::pow(10.0, 4 + (int)((rnd() + 1) * 5.2));   // up to 1e14
            double off = 0;
            for (auto& [c, kind] : rows[i]) if (c != i && kind) { D[i][c] = rnd(); off += std::fabs(D[i][c]); }
            D[i][i] = (off + 1.0 + std::fabs(rnd())) * (rnd() < 0 ? -1 : 1);
            for (int c = 0; c < n; c++) D[i][c] *= scale[i];
        }
        SparseMatrixCSR<double> A(n, n, [&](int i) { return (int)rows[i].size(); });
        for (int i = 0; i < n; i++)
            for (int k = 0; k < (int)rows[i].size(); k++) {
                A.row_nz_index(i, k) = rows[i][k].first;
                A.row_nz_entry(i, k) = rows[i][k].second ? D[i][rows[i][k].first] : 0.0;
            }
        cur_case = cs;
        SparseLUSolver<double> S(A);
        for (int rep = 0; rep < 2; rep++) {
            Vector<double> x(n); std::vector<double> b(n);
            for (int i = 0; i < n; i++) { b[i] = rnd() * scale[i]; x[i] = b[i]; }
            S.solveInPlace(x);
            double worst = 0;
            for (int i = 0; i < n; i++) {
                double ax = 0, s = std::fabs(b[i]) + 1e-300;
                for (auto& [c, kind] : rows[i]) if (kind) { ax += D[i][c] * x[c]; s += std::fabs(D[i][c] * x[c]); }
                worst = std::max(worst, std::fabs(ax - b[i]) / s);
            }
            if (!(worst <= 1e-9)) { std::printf("[FAIL] battery case %d, right-hand side #%d: relative row residual %.3e\n", cs, rep + 1, worst); fails++; }
        }
        cur_case = -1;
    }
    std::printf("%d of 120 solves failed\n", fails);
    std::fflush(stdout);
    cur_case = -1;
    return fails ? 1 : 0;
}
