// Native replay of a C14 violation: the verifier's counterexample fixes dimension and cyclic flag (its real values are not printed
// by CBMC's SMT back end), so the REAL SymmetricTridiagonalSolver<double> is run on that shape with a deterministic battery of
// symmetric positive definite (strictly diagonally dominant) systems, with and without a vanishing sub-diagonal / corner entry.
// usage: replay_tridiag n cyclic      exit 1 if some |A x - b| is not small or a repeated solve differs
#include <cmath>
#include <cstdio>
#include <cstdlib>
#include <vector>
#include "LinearAlgebra/symmetricTridiagonalSolver.h"
static unsigned long long st = 88172645463325252ULL;
static double rnd() { st ^= st << 13; st ^= st >> 7; st ^= st << 17; return (double)(st % 2000001ULL) / 1000000.0 - 1.0; }
int main(int argc, char** argv)
{
    if (argc < 3) return 2;
    const int n = atoi(argv[1]); const int cyc = atoi(argv[2]);
    int fails = 0;
    for (int cs = 0; cs < 40; cs++) {
        std::vector<double> d(n), s(n > 1 ? n - 1 : 0), b(n);
        double c = cyc ? rnd() : 0.0;
        if (cs % 5 == 4) c = 0.0;
        for (auto& v : s) v = rnd();
        if (cs % 7 == 6 && n > 2) s[cs % (n - 1)] = 0.0;
        for (int i = 0; i < n; i++) {
            double off = (i > 0 ? std::fabs(s[i - 1]) : 0) + (i < n - 1 ? std::fabs(s[i]) : 0) + ((cyc && (i == 0 || i == n - 1)) ? std::fabs(c) : 0);
            d[i] = off + 0.5 + std::fabs(rnd()); b[i] = rnd();
        }
        SymmetricTridiagonalSolver<double> S(n); S.is_cyclic(cyc);
        for (int i = 0; i < n; i++) S.main_diagonal(i) = d[i];
        for (int i = 0; i < n - 1; i++) S.sub_diagonal(i) = s[i];
        if (cyc) S.cyclic_corner_element() = c;
        std::vector<double> x = b, t1(n), t2(n), x2 = b;
        S.solveInPlace(x.data(), t1.data(), t2.data());
        S.solveInPlace(x2.data(), t1.data(), t2.data());
        double res = 0, rep = 0;
        for (int i = 0; i < n; i++) {
            double ax = d[i] * x[i];
            if (i > 0) ax += s[i - 1] * x[i - 1];
            if (i < n - 1) ax += s[i] * x[i + 1];
            if (cyc && i == 0) ax += c * x[n - 1];
            if (cyc && i == n - 1) ax += c * x[0];
            res = std::max(res, std::fabs(ax - b[i]) / (std::fabs(b[i]) + std::fabs(d[i] * x[i]) + 1e-300));
            rep = std::max(rep, std::fabs(x[i] - x2[i]));
        }
        if (!(res <= 1e-10) || rep != 0.0) { std::printf("[FAIL] case %d (n=%d cyclic=%d corner=%g): relative residual %.3e, repeated solve differs by %.3e\n", cs, n, cyc, c, res, rep); fails++; }
    }
    std::printf("%d of 40 systems failed\n", fails);
    return fails ? 1 : 0;
}
