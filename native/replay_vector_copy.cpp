// Native replay of a C12 thread-team violation: Vector<double> copy assignment and the elementwise kernels of vector_operations.h are
// run with the REAL OpenMP runtime for lengths around the 10'000 threshold of their if-clauses and every team size 1..12, and compared
// with their definitions.   usage: replay_vector_copy      exit 1 if some result depends on the thread count / differs from the definition
#include <cmath>
#include <cstdio>
#include <omp.h>
#include "LinearAlgebra/vector.h"
#include "LinearAlgebra/vector_operations.h"
int main()
{
    int fails = 0;
    omp_set_dynamic(0);
    for (int n : {7, 9999, 10001, 10007, 10496}) for (int t = 1; t <= 12; t++) {
        omp_set_num_threads(t);
        Vector<double> a(n), b(n), c(n);
        for (int i = 0; i < n; i++) { a[i] = 0.5 * i + 1; b[i] = -3.0; c[i] = 2.0 * i; }
        b = a;
        bool ok = true; for (int i = 0; i < n; i++) ok = ok && b[i] == a[i];
        Vector<double> d(n); for (int i = 0; i < n; i++) d[i] = 1.0;
        assign(d, 4.0); for (int i = 0; i < n; i++) ok = ok && d[i] == 4.0;
        add(d, c); for (int i = 0; i < n; i++) ok = ok && d[i] == 4.0 + c[i];
        subtract(d, c); for (int i = 0; i < n; i++) ok = ok && d[i] == 4.0;
        multiply(d, 0.5); for (int i = 0; i < n; i++) ok = ok && d[i] == 2.0;
        linear_combination(d, 3.0, c, 1.0); for (int i = 0; i < n; i++) ok = ok && d[i] == 6.0 + c[i];
        if (!ok) { if (fails < 6) std::printf("[FAIL] n=%d threads=%d: a kernel result differs from its definition\n", n, t); fails++; }
    }
    std::printf("%d (n, threads) combinations failed\n", fails);
    return fails ? 1 : 0;
}
