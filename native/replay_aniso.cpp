// Native replay of a violation in the refinement-window computation of PolarGrid::RadialAnisotropicDivision (C18):
// the verifier's counterexample (R0, Rmax, refinement radius; exponents from the job) is given to the REAL generating
// constructor, compiled from the verified tree's src/PolarGrid/*.cpp with -fsanitize=address,undefined,float-cast-overflow.
// usage: replay_aniso R0 Rmax refinement_radius nr_exp anisotropic_factor   exit 1 if a sanitizer fires or the grid is invalid
#include <cstdio>
#include <cstdlib>
#include "PolarGrid/polargrid.h"
int main(int argc, char** argv)
{
    if (argc < 6) return 2;
    const double R0 = atof(argv[1]), R = atof(argv[2]), rr = atof(argv[3]);
    const int nr_exp = atoi(argv[4]), aniso = atoi(argv[5]);
    try {
        PolarGrid g(R0, R, nr_exp, -1, rr, aniso, 0);
        bool ok = g.radius(0) == R0 && g.radius(g.nr() - 1) == R;
        for (int i = 0; i + 1 < g.nr(); i++) ok = ok && g.radius(i) < g.radius(i + 1);
        std::printf("constructed %d x %d, radii %s\n", g.nr(), g.ntheta(), ok ? "strictly increasing from R0 to Rmax" : "NOT valid");
        return ok ? 0 : 1;
    } catch (const std::exception& e) { std::printf("exception: %s\n", e.what()); return 0; }
}
