#!/bin/bash
# usage: run_race_assembly_give.sh <built-tree-root> [ntheta] [threads] [split]
ROOT=${1:?}; shift
OUT=$(mktemp -d); trap 'rm -rf $OUT' EXIT
clang++ -std=c++20 -O1 -g -DNDEBUG -fopenmp -fsanitize=thread -Wno-everything -I$ROOT/include /verif/native/race_assembly_give.cpp \
  $ROOT/src/DirectSolver/DirectSolverGiveCustomLU/*.cpp $ROOT/src/DirectSolver/directSolver.cpp $ROOT/_build/libGMGPolarLib.a $ROOT/_build/libPolarGrid.a $ROOT/_build/libInputFunctions.a \
  -o $OUT/race || { echo "compile failed"; exit 2; }
export OMP_WAIT_POLICY=passive OMP_DYNAMIC=false TSAN_OPTIONS="ignore_noninstrumented_modules=1 exitcode=66"
$OUT/race "$@" > $OUT/log 2>&1; rc=$?
grep -E "^grid|^done" $OUT/log
n=$(grep -c "WARNING: ThreadSanitizer: data race" $OUT/log); echo "ThreadSanitizer data race reports: $n"
[ $n -gt 0 ] && grep -m1 -A12 "WARNING: ThreadSanitizer: data race" $OUT/log | cut -c1-160
exit $rc
