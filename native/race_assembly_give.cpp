// Native confirmation of F15 (C11): DirectSolverGiveCustomLU::buildSolverMatrix, multi-threaded branch, grid with ONLY radial
// indexing (splitting radius below R0 -> numberSmootherCircles == 0), across-origin inner boundary, ntheta divisible by 6:
// the 3-colour radial phases give radial lines i and i + ntheta/2 the same colour, and both `+=` into the CSR slots of the
// matrix rows of the two innermost nodes (0, i) and (0, i + ntheta/2).  Built with clang++ -fsanitize=thread -fopenmp.
#include <cmath>
#include <cstdio>
#include <cstdlib>
#include <vector>
#include "GMGPolar/gmgpolar.h"
#include "GMGPolar/test_cases.h"
#include "DirectSolver/DirectSolverGiveCustomLU/directSolverGiveCustomLU.h"
int main(int argc, char** argv)
{
    const int ntheta = argc > 1 ? atoi(argv[1]) : 12, nr = 9, threads = argc > 2 ? atoi(argv[2]) : 4;
    const double split = argc > 3 ? atof(argv[3]) : -1.0;       // < R0: radial indexing only
    std::vector<double> radii(nr), angles(ntheta + 1);
    for (int i = 0; i < nr; i++) radii[i] = 0.1 + 1.2 * i / (nr - 1);
    for (int j = 0; j <= ntheta; j++) angles[j] = 2 * M_PI * j / ntheta;
    PolarGrid grid(radii, angles, split);
    std::printf("grid %d x %d, circles %d, radial length %d\n", grid.nr(), grid.ntheta(), grid.numberSmootherCircles(), grid.lengthSmootherRadial());
    const double Rmax = 1.3, kappa = 0.3, delta = 0.2;
    ShafranovGeometry geo(Rmax, kappa, delta);
    ZoniGyroCoefficients coeff(Rmax, 0.4837 * Rmax);
    LevelCache cache(grid, coeff, geo, true, true);
    for (int rep = 0; rep < 10; rep++) {
        DirectSolverGiveCustomLU op(grid, cache, geo, coeff, /*DirBC_Interior=*/false, threads);   // constructor assembles the matrix
    }
    std::printf("done\n");
    return 0;
}
