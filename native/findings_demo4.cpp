// Native confirmation of F13 (C17/C20): a PolarGrid with exactly two radii (accepted by checkParameters) and the automatic
// circle/radial split reads radius(2), one past the end of the radii.  Built WITHOUT NDEBUG from the library sources so that the
// source assert in PolarGrid::radius fires (release builds read out of bounds silently).
#include <cmath>
#include <cstdio>
#include <vector>
#include "PolarGrid/polargrid.h"
int main()
{
    std::vector<double> radii = {0.1, 1.0};
    std::vector<double> angles = {0.0, M_PI, 2 * M_PI};
    PolarGrid g(radii, angles);      // automatic splitting
    std::printf("constructed: nr=%d circles=%d radial=%d\n", g.nr(), g.numberSmootherCircles(), g.lengthSmootherRadial());
    return 0;
}
