#!/bin/bash
# usage: build_demo.sh <built-tree-root> <demo.cpp> <out>   (tree has its build in <root>/_build)
set -e
T=$1; SRC=$2; OUT=$3
g++ -std=c++20 -O1 -fopenmp -I$T/include $SRC $T/_build/libGMGPolarLib.a $T/_build/libPolarGrid.a $T/_build/libInputFunctions.a -o $OUT
