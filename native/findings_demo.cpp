// Native confirmation of the defects the Layer-T contracts of solve()/initializeSolution() expose (DESIGN.md section 7).
// Each scenario runs the REAL library through its public API and prints PASS/FAIL; exit status = number of FAILs.
//   F2  FMG start-up never uses the coarsest direct solve (two levels: nothing is interpolated)
//   F3/F4  a second solve() on the same object (combined extrapolation) differs from a fresh object
//   F7  exactError*() after maxIterations = 0 (reported separately: needs _GLIBCXX_ASSERTIONS to be visible)
#include <cmath>
#include <cstdio>
#include <memory>
#include <string>
#include <vector>
#include "GMGPolar/gmgpolar.h"
#include "GMGPolar/test_cases.h"

static std::unique_ptr<GMGPolar> makeSolver()
{
    const double Rmax = 1.3, kappa = 0.3, delta = 0.2;
    const double alpha_jump = 0.4837 * Rmax;
    auto s = std::make_unique<GMGPolar>(std::make_unique<ShafranovGeometry>(Rmax, kappa, delta),
                                        std::make_unique<ZoniGyroCoefficients>(Rmax, alpha_jump),
                                        std::make_unique<PolarR6_Boundary_ShafranovGeometry>(Rmax, kappa, delta),
                                        std::make_unique<PolarR6_ZoniGyro_ShafranovGeometry>(Rmax, kappa, delta));
    s->setSolution(std::make_unique<PolarR6_ShafranovGeometry>(Rmax, kappa, delta));
    s->verbose(0); s->paraview(false); s->maxOpenMPThreads(1); s->threadReductionFactor(1.0);
    s->cacheDensityProfileCoefficients(true); s->cacheDomainGeometry(true);
    s->R0(1e-8); s->Rmax(Rmax); s->nr_exp(4); s->ntheta_exp(-1); s->anisotropic_factor(0); s->divideBy2(0);
    s->DirBC_Interior(false); s->maxLevels(-1); s->preSmoothingSteps(1); s->postSmoothingSteps(1);
    s->maxIterations(150); s->absoluteTolerance(1e-12); s->relativeTolerance(1e-8);
    s->stencilDistributionMethod(StencilDistributionMethod::CPU_GIVE);
    s->extrapolation(ExtrapolationType::NONE); s->FMG(false); s->multigridCycle(MultigridCycleType::V_CYCLE);
    s->residualNormType(ResidualNormType::EUCLIDEAN);
    return s;
}
static double maxabs(const Vector<double>& v) { double m = 0; for (size_t i = 0; i < (size_t)v.size(); i++) m = std::max(m, std::fabs(v[i])); return m; }
static double maxdiff(const Vector<double>& a, const std::vector<double>& b) { double m = 0; for (size_t i = 0; i < b.size(); i++) m = std::max(m, std::fabs(a[i] - b[i])); return m; }
static int fails = 0;
static void report(bool ok, const std::string& what) { std::printf("[%s] %s\n", ok ? "PASS" : "FAIL", what.c_str()); if (!ok) fails++; }

int main()
{
    /* F2a: two levels, FMG on, no cycles at all: the start-up value must be the interpolated coarse solution, not zero */
    {
        auto s = makeSolver();
        s->FMG(true); s->FMG_iterations(0); s->FMG_cycle(MultigridCycleType::V_CYCLE); s->maxLevels(2); s->maxIterations(0);
        s->setup(); s->solve();
        double m = maxabs(s->solution());
        std::printf("     F2a: max|u_start| with FMG, 2 levels, 0 cycles = %.6e\n", m);
        report(m > 1e-6, "F2a FMG start-up on two levels interpolates the coarse-grid solution (non-zero start vector)");
    }
    /* F2b: FMG start-up is a function of the problem data only: same object solved twice (start-up only) vs fresh */
    {
        auto s = makeSolver();
        s->FMG(true); s->FMG_iterations(1); s->FMG_cycle(MultigridCycleType::V_CYCLE); s->maxLevels(4); s->maxIterations(0);
        s->setup(); s->solve();
        std::vector<double> first(s->solution().begin(), s->solution().end());
        s->maxIterations(3); s->solve();          /* leaves old data in every work vector */
        s->maxIterations(0); s->solve();          /* start-up only, again */
        double d = maxdiff(s->solution(), first);
        std::printf("     F2b: max|u_start(second) - u_start(first)| = %.6e\n", d);
        report(d <= 1e-12 * std::max(1.0, maxabs(s->solution())), "F2b FMG start-up does not depend on old work-vector contents");
    }
    /* F3/F4: combined extrapolation, solve(); solve() on one object vs a fresh object */
    {
        auto mk = [] { auto s = makeSolver(); s->extrapolation(ExtrapolationType::COMBINED); s->nr_exp(5); s->maxIterations(60); return s; };
        auto a = mk(); a->setup(); a->solve(); int it1 = a->numberOfIterations(); a->solve(); int it2 = a->numberOfIterations();
        double rho2 = a->meanResidualReductionFactor();
        auto b = mk(); b->setup(); b->solve(); int itf = b->numberOfIterations(); double rhof = b->meanResidualReductionFactor();
        std::printf("     F3/F4: iterations first=%d second=%d fresh=%d ; rho second=%.6f fresh=%.6f\n", it1, it2, itf, rho2, rhof);
        report(it2 == itf && std::fabs(rho2 - rhof) <= 1e-6 * std::fabs(rhof), "F3/F4 second solve() on a reused object (combined mode) equals a fresh object");
    }
    /* F8 (recorded, not repaired): when the loop ends at the iteration limit, exactErrorInfinity() is the error of the iterate
       BEFORE the last cycle, not of the returned solution */
    {
        const double Rmax = 1.3, kappa = 0.3, delta = 0.2;
        auto s = makeSolver(); s->maxIterations(2); s->setup(); s->solve();
        PolarR6_ShafranovGeometry ex(Rmax, kappa, delta);
        const PolarGrid& g = s->grid(); const Vector<double>& u = s->solution();
        double e = 0;
        for (int i = 0; i < g.nr(); i++) for (int j = 0; j < g.ntheta(); j++) {
            double r = g.radius(i), t = g.theta(j);
            e = std::max(e, std::fabs(ex.exact_solution(r, t, std::sin(t), std::cos(t)) - u[g.index(i, j)]));
        }
        double rep = s->exactErrorInfinity().value();
        std::printf("     F8: reported infinity error %.10e, error of the returned solution %.10e\n", rep, e);
        report(std::fabs(rep - e) <= 1e-10 * std::max(1.0, e), "F8 exactErrorInfinity() after hitting the iteration limit is the error of the returned solution");
    }
    std::printf("%d scenario(s) failed\n", fails);
    return fails;
}
