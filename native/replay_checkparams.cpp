// Native replay of a checkParameters violation (C18): the verifier's counterexample fixes the array sizes only (real values are not
// printed by CBMC's SMT back end), so the REAL PolarGrid(radii, angles) constructor is run on a battery of coordinate arrays of that
// size and compared with the specification evaluated in double precision: accepted <=> radii positive and strictly increasing (>= 2),
// angles (>= 3) non-negative and strictly increasing from 0 to 2 pi, every angle has its antipode among the angles.
// Battery: radii valid / one defect each; angles = 0, 2 pi and every subset of the interior multiples of pi/8 of the right size.
// usage: replay_checkparams n_radii n_angles      exit 1 if acceptance differs from the specification for some array
#include <cmath>
#include <cstdio>
#include <cstdlib>
#include <vector>
#include "PolarGrid/polargrid.h"
static bool eq(double a, double b) { return std::fabs(a - b) <= 1e3 * 2.220446049250313e-16 * std::max(1.0, std::max(std::fabs(a), std::fabs(b))); }
static bool spec(const std::vector<double>& r, const std::vector<double>& t)
{
    if (r.size() < 2 || t.size() < 3) return false;
    for (double x : r) if (!(x > 0)) return false;
    for (size_t i = 0; i + 1 < r.size(); i++) if (!(r[i] < r[i + 1])) return false;
    for (double x : t) if (!(x >= 0)) return false;
    for (size_t i = 0; i + 1 < t.size(); i++) if (!(t[i] < t[i + 1])) return false;
    if (!eq(t.front(), 0.0) || !eq(t.back(), 2 * M_PI)) return false;
    for (double x : t) { double o = x + M_PI >= 2 * M_PI ? x - M_PI : x + M_PI; bool f = false; for (double y : t) f = f || eq(o, y); if (!f) return false; }
    return true;
}
int main(int argc, char** argv)
{
    if (argc < 3) return 2;
    const int nr = atoi(argv[1]), na = atoi(argv[2]);
    int fails = 0, runs = 0;
    auto probe = [&](const std::vector<double>& r, const std::vector<double>& t) {
        bool accepted = true;
        try { PolarGrid g(r, t); } catch (const std::exception&) { accepted = false; }
        runs++;
        if (accepted != spec(r, t)) {
            if (fails < 5) { std::printf("[FAIL] %s although the arrays are %s: angles/pi =", accepted ? "accepted" : "rejected", spec(r, t) ? "valid" : "invalid"); for (double x : t) std::printf(" %.4g", x / M_PI); std::printf("; radii ="); for (double x : r) std::printf(" %g", x); std::printf("\n"); }
            fails++;
        }
    };
    std::vector<double> rv(nr); for (int i = 0; i < nr; i++) rv[i] = 0.1 + 0.3 * i;
    const int inner = na - 2;
    if (inner >= 0 && inner <= 15) {
        for (unsigned mask = 0; mask < (1u << 15); mask++) {
            if (__builtin_popcount(mask) != inner) continue;
            std::vector<double> t; t.push_back(0.0);
            for (int k = 0; k < 15; k++) if (mask & (1u << k)) t.push_back((k + 1) * M_PI / 8);
            t.push_back(2 * M_PI);
            probe(rv, t);
        }
    }
    else { std::vector<double> t(na > 0 ? na : 0, 0.0); probe(rv, t); }
    std::vector<double> tu; for (int j = 0; j < std::max(na, 3); j++) tu.push_back(2 * M_PI * j / (std::max(na, 3) - 1));
    if (nr >= 1) { auto r = rv; r[0] = -0.1; probe(r, tu); r = rv; r[0] = 0.0; probe(r, tu); }
    if (nr >= 2) { auto r = rv; r[1] = r[0]; probe(r, tu); }
    probe(rv, tu);
    std::printf("%d arrays probed, %d mismatches\n", runs, fails);
    return fails ? 1 : 0;
}
