// Native confirmation of F16 / F17 (C18): PolarGrid::RadialAnisotropicDivision.
//   F16: refinement radius close to R0 -> the refinement window starts before the first node: heap-buffer-overflow (read) under ASan,
//        e.g. PolarGrid(0.1, 1.3, 4, -1, 0.2, 2, 0)      -> ./demo 0.2 2 4
//   F17: refinement radius == Rmax -> log2(0) = -inf converted to int (UBSan float-cast-overflow)   -> ./demo 1.3 2 4
// build: clang++ -std=c++20 -O1 -g -DNDEBUG -fopenmp -fsanitize=address,undefined,float-cast-overflow -I<tree>/include \
//        native/findings_demo6.cpp <tree>/src/PolarGrid/*.cpp -o demo
// Before the fix commits 56ad2c7 / 0281a20 both runs end in a sanitizer report; after them both construct a valid grid
// (820 grids, nr_exp 3..7, every anisotropic factor, 41 refinement radii from R0 to Rmax: all valid under ASan + UBSan).
#include <cstdio>
#include <cstdlib>
#include "PolarGrid/polargrid.h"
int main(int argc, char** argv)
{
    const double R0 = 0.1, R = 1.3;
    const double refinement_radius = argc > 1 ? atof(argv[1]) : 0.2;
    const int aniso = argc > 2 ? atoi(argv[2]) : 2, nr_exp = argc > 3 ? atoi(argv[3]) : 4;
    try {
        PolarGrid g(R0, R, nr_exp, -1, refinement_radius, aniso, 0);
        bool ok = g.radius(0) == R0 && g.radius(g.nr() - 1) == R;
        for (int i = 0; i + 1 < g.nr(); i++) ok = ok && g.radius(i) < g.radius(i + 1);
        std::printf("constructed %d x %d, radii %s\n", g.nr(), g.ntheta(), ok ? "strictly increasing from R0 to Rmax" : "NOT valid");
        return ok ? 0 : 1;
    } catch (const std::exception& e) { std::printf("exception: %s\n", e.what()); }
    return 0;
}
