// Native replay of a C17 counterexample: the grid shape (nr, ntheta, number of circles) and the indices of the verifier's trace
// are applied to the REAL PolarGrid (uniform coordinates, explicit splitting radius realising the split).
// usage: replay_index nr ntheta nsc i_r i_theta u k      exit 1 if any C17 obligation fails natively
#include <cmath>
#include <cstdio>
#include <cstdlib>
#include <vector>
#include "PolarGrid/polargrid.h"
int main(int argc, char** argv)
{
    if (argc < 8) return 2;
    const int nr = atoi(argv[1]), nt = atoi(argv[2]), nsc = atoi(argv[3]), i_r = atoi(argv[4]), i_t = atoi(argv[5]), u = atoi(argv[6]), k = atoi(argv[7]);
    std::vector<double> radii(nr), angles(nt + 1);
    for (int i = 0; i < nr; i++) radii[i] = 0.1 + i;
    for (int j = 0; j <= nt; j++) angles[j] = 2 * M_PI * j / nt;
    angles[nt] = 2 * M_PI;
    double split = nsc <= 0 ? 0.05 : (nsc >= nr ? radii[nr - 1] + 1 : radii[nsc]);
    PolarGrid g(radii, angles, split);
    int fails = 0;
    auto chk = [&](bool ok, const char* what) { std::printf("[%s] %s\n", ok ? " ok " : "FAIL", what); if (!ok) fails++; };
    std::printf("grid %d x %d, circles %d (requested %d); i_r=%d i_theta=%d u=%d k=%d\n", g.nr(), g.ntheta(), g.numberSmootherCircles(), nsc, i_r, i_t, u, k);
    const int N = g.numberOfNodes();
    const int w = g.wrapThetaIndex(u);
    chk(0 <= w && w < nt, "wrapThetaIndex(u) in [0, ntheta)");
    chk(((long)u - (long)w) % nt == 0, "wrapThetaIndex(u) congruent to u modulo ntheta");
    if (0 <= i_r && i_r < nr && 0 <= i_t && i_t < nt) {
        const int idx = g.index(i_r, i_t);
        chk(0 <= idx && idx < N, "index in [0, N)");
        chk(g.fastIndex(i_r, i_t) == idx, "fastIndex == index");
        chk(g.index(MultiIndex(i_r, i_t)) == idx, "reference index == index");
        if (0 <= w && w < nt) chk(g.index(i_r, u) == g.index(i_r, w), "index periodic in theta");
        int r2, t2; if (0 <= idx && idx < N) { g.multiIndex(idx, r2, t2); chk(r2 == i_r && t2 == i_t, "multiIndex(index(i,j)) == (i,j)"); }
        chk((idx < g.numberCircularSmootherNodes()) == (i_r < g.numberSmootherCircles()), "circle/radial partition");
    }
    if (0 <= k && k < N) {
        int r3, t3; g.multiIndex(k, r3, t3);
        chk(0 <= r3 && r3 < nr && 0 <= t3 && t3 < nt, "multiIndex in range");
        if (0 <= r3 && r3 < nr && 0 <= t3 && t3 < nt) chk(g.index(r3, t3) == k, "index(multiIndex(k)) == k");
        MultiIndex m = g.multiIndex(k); chk(m[0] == r3 && m[1] == t3, "reference multiIndex == multiIndex");
    }
    std::printf("%d native check(s) failed\n", fails);
    return fails ? 1 : 0;
}
