// Native confirmation of F6, F7, F9 (DESIGN.md section 7): one scenario per run, chosen by argv[1].
//   F6: both tolerances disabled, maxIterations = 3: meanResidualReductionFactor() is computed from uninitialised locals
//       (run under valgrind: "depends on uninitialised value"); after the fix it is 1.0
//   F7: exact solution set, maxIterations = 0: exactErrorWeightedEuclidean() calls back() on an empty vector
//       (library object gmgpolar.cpp built with -D_GLIBCXX_ASSERTIONS aborts); after the fix it returns nullopt
//   F9: paraview = true without an exact solution: solve() dereferences the null exact_solution_ pointer (SIGSEGV)
#include <cmath>
#include <cstdio>
#include <cstring>
#include <memory>
#include "GMGPolar/gmgpolar.h"
#include "GMGPolar/test_cases.h"

static std::unique_ptr<GMGPolar> makeSolver(bool with_exact)
{
    const double Rmax = 1.3, kappa = 0.3, delta = 0.2;
    const double alpha_jump = 0.4837 * Rmax;
    auto s = std::make_unique<GMGPolar>(std::make_unique<ShafranovGeometry>(Rmax, kappa, delta),
                                        std::make_unique<ZoniGyroCoefficients>(Rmax, alpha_jump),
                                        std::make_unique<PolarR6_Boundary_ShafranovGeometry>(Rmax, kappa, delta),
                                        std::make_unique<PolarR6_ZoniGyro_ShafranovGeometry>(Rmax, kappa, delta));
    if (with_exact) s->setSolution(std::make_unique<PolarR6_ShafranovGeometry>(Rmax, kappa, delta));
    s->verbose(0); s->paraview(false); s->maxOpenMPThreads(1); s->threadReductionFactor(1.0);
    s->cacheDensityProfileCoefficients(true); s->cacheDomainGeometry(true);
    s->R0(1e-8); s->Rmax(Rmax); s->nr_exp(3); s->ntheta_exp(-1); s->anisotropic_factor(0); s->divideBy2(0);
    s->DirBC_Interior(false); s->maxLevels(-1); s->preSmoothingSteps(1); s->postSmoothingSteps(1);
    s->maxIterations(3); s->absoluteTolerance(1e-12); s->relativeTolerance(1e-8);
    s->stencilDistributionMethod(StencilDistributionMethod::CPU_GIVE);
    s->extrapolation(ExtrapolationType::NONE); s->FMG(false); s->multigridCycle(MultigridCycleType::V_CYCLE);
    s->residualNormType(ResidualNormType::EUCLIDEAN);
    return s;
}
int main(int argc, char** argv)
{
    const char* which = argc > 1 ? argv[1] : "";
    if (!strcmp(which, "F6")) {
        auto s = makeSolver(true);
        s->absoluteTolerance(-1.0); s->relativeTolerance(-1.0);
        s->setup(); s->solve();
        double rho = s->meanResidualReductionFactor();
        std::printf("F6: iterations=%d rho=%.17g\n", s->numberOfIterations(), rho);
        return rho == 1.0 ? 0 : 1;
    }
    if (!strcmp(which, "F7")) {
        auto s = makeSolver(true);
        s->maxIterations(0);
        s->setup(); s->solve();
        auto e = s->exactErrorWeightedEuclidean();
        std::printf("F7: exactErrorWeightedEuclidean() has_value=%d\n", (int)e.has_value());
        return e.has_value() ? 1 : 0;
    }
    if (!strcmp(which, "F9")) {
        auto s = makeSolver(false);
        s->paraview(true);
        s->setup(); s->solve();
        std::printf("F9: solve() with paraview and without exact solution returned\n");
        return 0;
    }
    std::printf("usage: demo F6|F7|F9\n");
    return 2;
}
