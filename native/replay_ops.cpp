// Native replay driver for the Layer-R operator checks (C03, C04, C05, C06, C07, C08, C12).
// A Layer-R counterexample fixes the grid SHAPE (nr, ntheta, circle/radial split, boundary mode) and leaves the real data free;
// symbolic coefficient arrays need not be realisable by a shipped geometry.  This driver rebuilds that shape with the REAL
// library (non-uniform antipodal grid, Czarny geometry, Zoni-shifted coefficients, random vectors) and evaluates the same
// obligation natively in double precision.  Exit 0: obligation holds natively (within tolerance); exit 1: reproduced.
//
// usage: replay_ops <mode> nr ntheta nsc dirbc [threads]      mode: transfer | givetake | symmetry | assembly | smoother | exsmoother
#include <cmath>
#include <cstdio>
#include <cstring>
#include <memory>
#include <random>
#include <vector>
#include "GMGPolar/gmgpolar.h"
#include "GMGPolar/test_cases.h"
#include "Residual/ResidualGive/residualGive.h"
#include "Residual/ResidualTake/residualTake.h"
#include "DirectSolver/DirectSolverGiveCustomLU/directSolverGiveCustomLU.h"
#include "DirectSolver/DirectSolverTakeCustomLU/directSolverTakeCustomLU.h"
#include "Smoother/SmootherGive/smootherGive.h"
#include "Smoother/SmootherTake/smootherTake.h"
#include "ExtrapolatedSmoother/ExtrapolatedSmootherGive/extrapolatedSmootherGive.h"
#include "ExtrapolatedSmoother/ExtrapolatedSmootherTake/extrapolatedSmootherTake.h"
#include "Interpolation/interpolation.h"

static std::mt19937 gen(12345);
static double rnd(double a, double b) { return std::uniform_real_distribution<double>(a, b)(gen); }
static Vector<double> rvec(int n) { Vector<double> v(n); for (int i = 0; i < n; i++) v[i] = rnd(-1, 1); return v; }
static int fails = 0;
static void check(bool ok, const char* what, double err) { std::printf("[%s] %s (max deviation %.3e)\n", ok ? " ok " : "FAIL", what, err); if (!ok) fails++; }

// non-uniform grid with antipodal angles; fine nodes are NOT midpoints (jitter) unless midpoint is requested
static std::unique_ptr<PolarGrid> make_grid(int nr, int nt, int nsc, bool midpoint)
{
    std::vector<double> radii(nr), angles(nt + 1);
    double r = 0.05;
    for (int i = 0; i < nr; i++) { radii[i] = r; r += midpoint ? 0.1 : rnd(0.05, 0.15); }
    if (midpoint) for (int i = 1; i < nr - 1; i += 2) radii[i] = 0.5 * (radii[i - 1] + radii[i + 1]);
    std::vector<double> half(nt / 2);
    double s = 0; for (int j = 0; j < nt / 2; j++) { half[j] = midpoint ? 1.0 : rnd(0.5, 1.5); s += half[j]; }
    if (midpoint) { }
    double t = 0;
    for (int j = 0; j < nt / 2; j++) { angles[j] = t; angles[j + nt / 2] = t + M_PI; t += half[j] * M_PI / s; }
    angles[nt] = 2 * M_PI;
    // splitting radius realising the requested number of circles
    double split = (nsc <= 0) ? radii[0] * 0.5 : (nsc >= nr ? radii[nr - 1] + 1.0 : radii[nsc]);
    return std::make_unique<PolarGrid>(radii, angles, split);
}

int main(int argc, char** argv)
{
    if (argc < 6) { std::printf("usage: replay_ops mode nr ntheta nsc dirbc [threads]\n"); return 2; }
    const char* mode = argv[1];
    const int nr = atoi(argv[2]), nt = atoi(argv[3]), nsc = atoi(argv[4]); const bool dirbc = atoi(argv[5]) != 0;
    const int threads = argc > 6 ? atoi(argv[6]) : 1;
    const double Rmax = 1.3, kappa = 0.3, delta = 1.4;
    CzarnyGeometry geo(Rmax, kappa, delta);
    ZoniShiftedCoefficients coeff(Rmax, 0.7081 * Rmax);
    auto grid = make_grid(nr, nt, nsc, false);
    if (grid->numberSmootherCircles() != std::max(0, std::min(nsc, nr))) std::printf("note: realised split %d instead of %d\n", grid->numberSmootherCircles(), nsc);
    const int N = grid->numberOfNodes();
    auto cache = std::make_unique<LevelCache>(*grid, coeff, geo, true, true);
    const double tol = 1e-9;

    if (!strcmp(mode, "givetake")) {
        ResidualGive g1(*grid, *cache, geo, coeff, dirbc, 1), gp(*grid, *cache, geo, coeff, dirbc, std::max(2, threads));
        ResidualTake t1(*grid, *cache, geo, coeff, dirbc, 1);
        Vector<double> x = rvec(N), f = rvec(N), a(N), b(N), c(N);
        g1.computeResidual(a, f, x); gp.computeResidual(b, f, x); t1.computeResidual(c, f, x);
        double e1 = 0, e2 = 0, sc = 1e-300;
        for (int i = 0; i < N; i++) { e1 = std::max(e1, std::fabs(a[i] - c[i])); e2 = std::max(e2, std::fabs(b[i] - c[i])); sc = std::max(sc, std::fabs(c[i])); }
        check(e1 <= tol * sc, "give (1 thread) == take", e1 / sc);
        check(e2 <= tol * sc, "give (multi-threaded branch) == take", e2 / sc);
    }
    else if (!strcmp(mode, "symmetry")) {
        ResidualTake t1(*grid, *cache, geo, coeff, dirbc, 1);
        ResidualGive g1(*grid, *cache, geo, coeff, dirbc, 1);
        auto dirichlet = [&](int k) { int i, j; grid->multiIndex(k, i, j); return i == nr - 1 || (i == 0 && dirbc); };
        for (int which = 0; which < 2; which++) {
            Vector<double> x = rvec(N), y = rvec(N), z(N), ax(N), ay(N);
            for (int k = 0; k < N; k++) { z[k] = 0; if (dirichlet(k)) { x[k] = 0; y[k] = 0; } }
            if (which == 0) { t1.computeResidual(ax, z, x); t1.computeResidual(ay, z, y); } else { g1.computeResidual(ax, z, x); g1.computeResidual(ay, z, y); }
            double axy = 0, xay = 0;
            for (int k = 0; k < N; k++) if (!dirichlet(k)) { axy += -ax[k] * y[k]; xay += -ay[k] * x[k]; }
            check(std::fabs(axy - xay) <= tol * std::max(1.0, std::fabs(axy)), which == 0 ? "<Ax,y> == <x,Ay> (take)" : "<Ax,y> == <x,Ay> (give)", std::fabs(axy - xay));
        }
    }
    else if (!strcmp(mode, "assembly")) {
        ResidualTake t1(*grid, *cache, geo, coeff, dirbc, 1);
        for (int th : {1, std::max(2, threads)}) {
            DirectSolverGiveCustomLU dg(*grid, *cache, geo, coeff, dirbc, th);
            DirectSolverTakeCustomLU dt(*grid, *cache, geo, coeff, dirbc, th);
            Vector<double> f = rvec(N), u = f, v = f, r(N);
            dg.solveInPlace(u); dt.solveInPlace(v);
            t1.computeResidual(r, f, u);
            double e = 0, d = 0; for (int k = 0; k < N; k++) { e = std::max(e, std::fabs(r[k])); d = std::max(d, std::fabs(u[k] - v[k])); }
            check(e <= 1e-7, th == 1 ? "residual of the give direct solve (1 thread)" : "residual of the give direct solve (multi-threaded assembly)", e);
            check(d <= 1e-7, "give and take direct solvers agree", d);
        }
    }
    else if (!strcmp(mode, "smoother") || !strcmp(mode, "exsmoother")) {
        const bool ex = !strcmp(mode, "exsmoother");
        ResidualTake t1(*grid, *cache, geo, coeff, dirbc, 1);
        DirectSolverTakeCustomLU dt(*grid, *cache, geo, coeff, dirbc, 1);
        Vector<double> f = rvec(N), ustar = f; dt.solveInPlace(ustar);      // exact discrete solution
        for (int variant = 0; variant < 3; variant++) {
            const int th = variant == 2 ? std::max(2, threads) : 1;
            Vector<double> u = ustar, tmp(N), x0 = rvec(N), x1 = x0, r(N);
            if (!ex) { if (variant == 0) { SmootherTake s(*grid, *cache, geo, coeff, dirbc, th); s.smoothing(u, f, tmp); s.smoothing(x1, f, tmp); }
                       else { SmootherGive s(*grid, *cache, geo, coeff, dirbc, th); s.smoothing(u, f, tmp); s.smoothing(x1, f, tmp); } }
            else     { if (variant == 0) { ExtrapolatedSmootherTake s(*grid, *cache, geo, coeff, dirbc, th); s.extrapolatedSmoothing(u, f, tmp); s.extrapolatedSmoothing(x1, f, tmp); }
                       else { ExtrapolatedSmootherGive s(*grid, *cache, geo, coeff, dirbc, th); s.extrapolatedSmoothing(u, f, tmp); s.extrapolatedSmoothing(x1, f, tmp); } }
            double e = 0, sc = 1e-300; for (int k = 0; k < N; k++) { e = std::max(e, std::fabs(u[k] - ustar[k])); sc = std::max(sc, std::fabs(ustar[k])); }
            const char* nm[3] = {"take", "give (1 thread)", "give (multi-threaded)"};
            std::printf("  variant %s\n", nm[variant]);
            check(e <= 1e-7 * sc, "exact discrete solution is a fixed point of one sweep", e / sc);
            t1.computeResidual(r, f, x1);
            double er = 0, ec = 0;
            for (int k = 0; k < N; k++) { int i, j; grid->multiIndex(k, i, j);
                if (i >= grid->numberSmootherCircles() && (j % 2 == 1) && i < nr - 1) er = std::max(er, std::fabs(r[k]));
                if (ex && i % 2 == 0 && j % 2 == 0) ec = std::max(ec, std::fabs(x1[k] - x0[k])); }
            check(er <= 1e-7, "residual vanishes on the white radial lines after a sweep", er);
            if (ex) check(ec == 0.0, "coarse nodes are not moved", ec);
        }
    }
    else if (!strcmp(mode, "transfer")) {
        // fine grid (nr, nt, nsc) and its coarsening
        auto fine = make_grid(nr, nt, nsc, false);
        auto coarse = std::make_unique<PolarGrid>(coarseningGrid(*fine));
        const int NF = fine->numberOfNodes(), NC = coarse->numberOfNodes();
        auto cf = std::make_unique<LevelCache>(*fine, coeff, geo, true, true);
        Level lf(0, std::move(fine), std::move(cf), ExtrapolationType::NONE, 0);
        auto cc = std::make_unique<LevelCache>(lf, *coarse);
        Level lc(1, std::move(coarse), std::move(cc), ExtrapolationType::NONE, 0);
        std::vector<int> tpl = {threads, threads};
        Interpolation I(tpl, dirbc);
        Vector<double> xc = rvec(NC), yf = rvec(NF), px(NF), ry(NC), ij(NC);
        for (int pair = 0; pair < 2; pair++) {
            if (pair == 0) { I.applyProlongation(lc, lf, px, xc); I.applyRestriction(lf, lc, ry, yf); }
            else { I.applyExtrapolatedProlongation(lc, lf, px, xc); I.applyExtrapolatedRestriction(lf, lc, ry, yf); }
            double a = 0, b = 0; for (int k = 0; k < NC; k++) a += ry[k] * xc[k]; for (int k = 0; k < NF; k++) b += yf[k] * px[k];
            check(std::fabs(a - b) <= tol * std::max(1.0, std::fabs(a)), pair == 0 ? "<R y, x> == <y, P x>" : "<R_ex y, x> == <y, P_ex x>", std::fabs(a - b));
            I.applyInjection(lf, lc, ij, px);
            double e = 0; for (int k = 0; k < NC; k++) e = std::max(e, std::fabs(ij[k] - xc[k]));
            check(e == 0.0, "injection(prolongation(x)) == x", e);
        }
        Vector<double> one(NC); for (int k = 0; k < NC; k++) one[k] = 1.0;
        I.applyProlongation(lc, lf, px, one);
        double e = 0; for (int k = 0; k < NF; k++) e = std::max(e, std::fabs(px[k] - 1.0));
        check(e <= 1e-12, "prolongation reproduces constants", e);
    }
    else { std::printf("unknown mode\n"); return 2; }
    std::printf("%d native check(s) failed\n", fails);
    return fails ? 1 : 0;
}
