// Native confirmation of F14 (C16): SparseLUSolver::solveInPlace terminates the process ("Zero diagonal encountered in U") for a
// regular, strictly diagonally dominant system whose pivots are non-zero but smaller than the ABSOLUTE threshold 1e-12
// (rows scaled down over many orders of magnitude, as the property quantifies).  Header-only: g++ -std=c++20 -I<repo>/include.
#include <cstdio>
#include <cstdlib>
#include "LinearAlgebra/csr_matrix.h"
#include "LinearAlgebra/sparseLUSolver.h"
#include "LinearAlgebra/vector.h"
static void at_exit() { std::printf("F14 reproduced: the solver terminated the process for A = 1e-13 * [[4,1],[1,4]] (pivots 4e-13, 3.75e-13: non-zero)\n"); }
int main()
{
    const double s = 1e-13;
    SparseMatrixCSR<double> A(2, 2, [](int) { return 2; });
    A.row_nz_index(0, 0) = 0; A.row_nz_entry(0, 0) = 4 * s; A.row_nz_index(0, 1) = 1; A.row_nz_entry(0, 1) = 1 * s;
    A.row_nz_index(1, 0) = 1; A.row_nz_entry(1, 0) = 4 * s; A.row_nz_index(1, 1) = 0; A.row_nz_entry(1, 1) = 1 * s;
    SparseLUSolver<double> S(A);
    Vector<double> b(2); b[0] = 5 * s; b[1] = 5 * s;   // exact solution (1, 1)
    std::atexit(at_exit);
    S.solveInPlace(b);
    std::printf("solved: x = (%g, %g)\n", b[0], b[1]);
    std::_Exit(0);
}
