// Native confirmation of F5, F10, F11 (C15).  One scenario per run (argv[1]).
//  F5 : a SymmetricTridiagonalSolver copied/moved after its first solve must solve the same system as the original
//  F10: copy of a default-constructed SparseMatrixCSR copies rows_+1 = 1 element out of a null array (crash / UB)
//  F11: copy of a default-constructed SymmetricTridiagonalSolver allocates make_unique<T[]>(-1) (throws)
#include <cmath>
#include <cstdio>
#include <cstring>
#include <vector>
#include "LinearAlgebra/symmetricTridiagonalSolver.h"
#include "LinearAlgebra/csr_matrix.h"

static double solve_with(SymmetricTridiagonalSolver<double>& s, int n)
{
    std::vector<double> x(n), t1(n), t2(n);
    for (int i = 0; i < n; i++) x[i] = 1.0 + i;
    s.solveInPlace(x.data(), t1.data(), t2.data());
    double sum = 0; for (double v : x) sum += v * v; return sum;
}
int main(int argc, char** argv)
{
    const char* which = argc > 1 ? argv[1] : "";
    if (!strcmp(which, "F5")) {
        int fails = 0;
        for (int cyclic = 0; cyclic < 2; cyclic++) {
            const int n = 5;
            SymmetricTridiagonalSolver<double> a(n);
            a.is_cyclic(cyclic);
            for (int i = 0; i < n; i++) a.main_diagonal(i) = 4.0 + i;
            for (int i = 0; i < n - 1; i++) a.sub_diagonal(i) = -1.0;
            if (cyclic) a.cyclic_corner_element() = -0.5;
            double ref = solve_with(a, n);                 // first solve factorises a in place
            SymmetricTridiagonalSolver<double> b(a);       // copy AFTER the solve
            SymmetricTridiagonalSolver<double> c; c = a;   // copy assignment
            double rb = solve_with(b, n), rc = solve_with(c, n), ra = solve_with(a, n);
            SymmetricTridiagonalSolver<double> d(std::move(a));
            double rd = solve_with(d, n);
            std::printf("F5 cyclic=%d: original %.15g again %.15g copy %.15g assigned %.15g moved %.15g\n", cyclic, ref, ra, rb, rc, rd);
            auto bad = [&](double v) { return std::fabs(v - ref) > 1e-12 * std::fabs(ref); };
            if (bad(ra) || bad(rb) || bad(rc) || bad(rd)) fails++;
        }
        return fails;
    }
    if (!strcmp(which, "F10")) {
        SparseMatrixCSR<double> a;
        SparseMatrixCSR<double> b(a);
        std::printf("F10: copy of a default-constructed CSR matrix returned (rows=%d)\n", b.rows());
        return 0;
    }
    if (!strcmp(which, "F11")) {
        SymmetricTridiagonalSolver<double> a;
        try { SymmetricTridiagonalSolver<double> b(a); std::printf("F11: copy of a default-constructed solver returned\n"); return 0; }
        catch (const std::exception& e) { std::printf("F11: copy of a default-constructed solver threw: %s\n", e.what()); return 1; }
    }
    return 2;
}
