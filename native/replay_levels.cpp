// Native replay of a C18 counterexample: grid size and level cap of the verifier's trace are given to the REAL
// GMGPolar::chooseNumberOfLevels (private: reached through the access hack below, replay driver only).
// usage: replay_levels nr ntheta max_levels        exit 1 if the reported level count is not admissible
#include <cstdio>
#include <cstdlib>
#include <cmath>
#include <vector>
#include <bits/stdc++.h>
#include <omp.h>
#define private public
#include "GMGPolar/gmgpolar.h"
#undef private
#include "GMGPolar/test_cases.h"
int main(int argc, char** argv)
{
    if (argc < 4) return 2;
    const int nr = atoi(argv[1]), nt = atoi(argv[2]), cap = atoi(argv[3]);
    const double Rmax = 1.3;
    GMGPolar s(std::make_unique<CircularGeometry>(Rmax), std::make_unique<PoissonCoefficients>(Rmax, 0.0),
               std::make_unique<PolarR6_Boundary_CircularGeometry>(Rmax), std::make_unique<PolarR6_Poisson_CircularGeometry>(Rmax));
    s.maxLevels(cap);
    std::vector<double> radii(nr), angles(nt + 1);
    for (int i = 0; i < nr; i++) radii[i] = 0.1 + 1.2 * i / (nr - 1);
    for (int j = 0; j <= nt; j++) angles[j] = 2 * M_PI * j / nt;
    PolarGrid g(radii, angles);
    int L = -1; bool thrown = false;
    try { L = s.chooseNumberOfLevels(g); } catch (const std::exception& e) { thrown = true; }
    const bool two = (nr % 2 == 1) && (nr + 1) / 2 >= 5 && (nt % 4 == 0) && nt / 2 >= 4 && (cap <= 0 || cap >= 2);
    int fails = 0;
    std::printf("nr=%d ntheta=%d maxLevels=%d -> %s levels=%d\n", nr, nt, cap, thrown ? "exception" : "ok", L);
    if (s.max_levels_ != cap) { std::printf("FAIL: chooseNumberOfLevels rewrote the maxLevels option: %d -> %d\n", cap, s.max_levels_); fails++; }
    if (thrown != !two) { std::printf("FAIL: rejection does not match `no two-level hierarchy exists`\n"); fails++; }
    if (!thrown) {
        int a = nr, b = nt;
        if (L < 2 || (cap > 0 && L > cap)) { std::printf("FAIL: level count out of range\n"); fails++; }
        for (int j = 0; j < L - 1; j++) {
            if (!(a % 2 == 1 && b % 2 == 0)) { std::printf("FAIL: level %d (nr=%d, ntheta=%d) cannot be coarsened\n", j, a, b); fails++; break; }
            if (b % 4 != 0) { std::printf("FAIL: smoothing level %d has ntheta %% 4 != 0\n", j); fails++; }
            a = (a + 1) / 2; b /= 2;
        }
        if (!(a >= 5 && b >= 4)) { std::printf("FAIL: coarsest grid %d x %d too small\n", a, b); fails++; }
    }
    return fails ? 1 : 0;
}
