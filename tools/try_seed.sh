#!/bin/bash
# usage: try_seed.sh <seed-name> <PROPERTY-ID> [quick|thorough]
# Runs the check against a scratch worktree of /repo with seeded/<name>/patch.diff applied (VERIF_REPO), with evidence
# and replay output redirected to a scratch directory, so /repo, /verif/evidence and concurrent runs are untouched.
# (Equivalent to: git -C /repo apply <patch>; ./check ...; git -C /repo checkout -- .)
NAME=$1; PID=$2; TIER=${3:-quick}
W=/tmp/wt/try_$NAME.$PID
git -C /repo worktree remove --force $W >/dev/null 2>&1
git -C /repo worktree add --detach $W HEAD >/dev/null 2>&1 || exit 2
git -C $W apply /verif/seeded/$NAME/patch.diff || { echo "patch does not apply"; exit 2; }
OUTD=/tmp/wt/out_$NAME.$PID; rm -rf $OUTD; mkdir -p $OUTD
cd /verif
VERIF_REPO=$W VERIF_OUT=$OUTD ./check $PID $TIER > $OUTD/log 2>&1; rc=$?
echo "seed=$NAME check=$PID tier=$TIER exit=$rc violations=$(grep -c '^VIOLATION' $OUTD/log) inconclusive=$(grep -c '^INCONCLUSIVE' $OUTD/log)"
grep "^VIOLATION" $OUTD/log | head -2 | cut -c1-260
grep "^INCONCLUSIVE" $OUTD/log | head -2 | cut -c1-260
tail -1 $OUTD/log
git -C /repo worktree remove --force $W
