#!/usr/bin/env python3
"""./check <ID> quick|thorough|--replay <path>"""
import importlib, os, shutil, sys, tempfile
HERE = os.path.dirname(os.path.abspath(__file__))
sys.path.insert(0, HERE)
sys.path.insert(0, os.path.join(os.path.dirname(HERE), "props"))
import vlib


def main():
    if len(sys.argv) < 3:
        print(__doc__)
        return 2
    pid, mode = sys.argv[1], sys.argv[2]
    mod = importlib.import_module(pid)
    if mode == "--replay":
        return mod.replay(sys.argv[3])
    tier = mode if mode in ("quick", "thorough") else os.environ.get("VERIF_TIER", "quick")
    seed = int(os.environ.get("VERIF_SEED", "0"))
    work = tempfile.mkdtemp(prefix="gmgverif-%s-" % pid)
    try:
        try:
            return mod.run(tier, seed, work)
        except vlib.ExtractError as e:
            print("INCONCLUSIVE: property=%s extraction failed: %s" % (pid, e))
            return 2
    finally:
        if not os.environ.get("VERIF_KEEP"):
            shutil.rmtree(work, ignore_errors=True)
        else:
            print("kept workdir", work)


if __name__ == "__main__":
    sys.exit(main())
