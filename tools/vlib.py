#!/usr/bin/env python3
"""vlib -- shared machinery of the GMGPolar contract-verification framework.

  * Src / extract_*   : mechanical extraction of macro and function bodies from /repo's
                        current working tree (DESIGN.md 2.2).  Every rule is must-fire:
                        a rule that does not fire raises ExtractError -> exit 2.
  * Job / run_jobs    : goto-cc / goto-instrument / cbmc pipelines under timeout+ulimit,
                        per-obligation verdicts parsed from cbmc's JSON output.
  * Report            : VIOLATION / KNOWN-FINDING / INCONCLUSIVE lines, evidence JSON,
                        replay files.
"""
import hashlib, json, os, re, shutil, subprocess, sys, tempfile, time
from concurrent.futures import ThreadPoolExecutor

REPO = os.environ.get("VERIF_REPO", "/repo")
VERIF = os.path.dirname(os.path.dirname(os.path.abspath(__file__)))
OUT = os.environ.get("VERIF_OUT", VERIF)     # evidence/ and replay/ go here (trial runs against seeded trees redirect it)


class ExtractError(Exception):
    pass


# --------------------------------------------------------------------------------------
# source access
# --------------------------------------------------------------------------------------
def strip_comments(text):
    """Remove // and /* */ comments, keep newlines (so line numbers survive) and
    keep line-continuation backslashes that follow a comment."""
    out = []
    i, n = 0, len(text)
    while i < n:
        c = text[i]
        if c == '"':
            j = i + 1
            while j < n and text[j] != '"':
                j += 2 if text[j] == '\\' else 1
            out.append(text[i:j + 1])
            i = j + 1
        elif c == "'" and i + 2 < n and (text[i + 2] == "'" or (text[i + 1] == '\\' and text[i + 3:i + 4] == "'")):
            j = i + (3 if text[i + 2] == "'" else 4)
            out.append(text[i:j])
            i = j
        elif text.startswith("//", i):
            j = text.find("\n", i)
            if j < 0:
                j = n
            seg = text[i:j]
            # a trailing backslash continues the macro: keep it
            out.append(" \\" if seg.rstrip().endswith("\\") else "")
            i = j
        elif text.startswith("/*", i):
            j = text.find("*/", i + 2)
            if j < 0:
                raise ExtractError("unterminated comment")
            seg = text[i:j + 2]
            out.append(" " + "\n" * seg.count("\n"))
            i = j + 2
        else:
            out.append(c)
            i += 1
    return "".join(out)


def strip_mumps(text, rel=""):
    """The build has GMGPOLAR_USE_MUMPS off: `#ifdef GMGPOLAR_USE_MUMPS A [#else B] #endif` -> B (line structure kept)."""
    lines = text.split("\n")
    out, state = [], []          # state stack entries: 'skip' | 'keep'
    for ln in lines:
        s = ln.strip()
        if re.match(r"#\s*ifdef\s+GMGPOLAR_USE_MUMPS\b", s):
            state.append("skip")
            out.append("")
        elif state and re.match(r"#\s*(ifdef|ifndef|if)\b", s):
            state.append("nested:" + state[-1])
            out.append(ln if state[-1].endswith("keep") else "")
        elif state and re.match(r"#\s*else\b", s):
            if state[-1] in ("skip", "keep"):
                state[-1] = "keep" if state[-1] == "skip" else "skip"
                out.append("")
            else:
                out.append(ln if state[-1].endswith("keep") else "")
        elif state and re.match(r"#\s*endif\b", s):
            top = state.pop()
            out.append("" if top in ("skip", "keep") else (ln if top.endswith("keep") else ""))
        elif state and state[-1].endswith("skip"):
            out.append("\\" if ln.rstrip().endswith("\\") and False else "")
        else:
            out.append(ln)
    if state:
        raise ExtractError("unbalanced GMGPOLAR_USE_MUMPS conditional in " + rel)
    return "\n".join(out)


def match_close(text, i, open_c="{", close_c="}"):
    """text[i] == open_c ; return index of the matching close_c."""
    assert text[i] == open_c, (text[i - 20:i + 20], open_c)
    depth = 0
    n = len(text)
    j = i
    while j < n:
        c = text[j]
        if c == '"':
            j += 1
            while j < n and text[j] != '"':
                j += 2 if text[j] == '\\' else 1
        elif c == open_c:
            depth += 1
        elif c == close_c:
            depth -= 1
            if depth == 0:
                return j
        j += 1
    raise ExtractError("unbalanced %s at %d" % (open_c, i))


class Src:
    """One file of the repository working tree."""
    _cache = {}

    def __init__(self, rel):
        self.rel = rel
        path = os.path.join(REPO, rel)
        if not os.path.exists(path):
            raise ExtractError("source file missing: " + rel)
        self.raw = open(path).read()
        self.text = strip_mumps(strip_comments(self.raw), rel)

    @classmethod
    def get(cls, rel):
        key = (REPO, rel)
        if key not in cls._cache:
            cls._cache[key] = Src(rel)
        return cls._cache[key]

    # -- macros ------------------------------------------------------------------------
    def macro(self, name):
        """Return the complete '#define NAME(...) ...' text (with continuations)."""
        m = re.search(r"^[ \t]*#[ \t]*define[ \t]+" + re.escape(name) + r"\b", self.text, re.M)
        if not m:
            raise ExtractError("macro %s not found in %s" % (name, self.rel))
        i = m.start()
        lines = []
        pos = i
        while True:
            j = self.text.find("\n", pos)
            if j < 0:
                j = len(self.text)
            line = self.text[pos:j]
            lines.append(line.rstrip())
            if not line.rstrip().endswith("\\"):
                break
            pos = j + 1
        return "\n".join(lines) + "\n"

    # -- functions ---------------------------------------------------------------------
    def function(self, qualname, occurrence=0, must_params=None):
        """Find the definition `... qualname(params) [const] [: init-list] { body }`.
        Returns dict(ret=..., params=[(type,name)], params_text, body, init, span)."""
        pat = re.compile(r"(?<![\w:])" + re.escape(qualname).replace(r"\<T\>", r"<\s*T\s*>") + r"\s*\(")
        found = []
        for m in pat.finditer(self.text):
            po = m.end() - 1
            pc = match_close(self.text, po, "(", ")")
            k = pc + 1
            # qualifiers
            mm = re.match(r"\s*(const)?\s*(noexcept)?\s*(override)?\s*", self.text[k:])
            k2 = k + mm.end()
            init = ""
            if self.text[k2:k2 + 1] == ":" and self.text[k2:k2 + 2] != "::":
                # constructor initialiser list: scan to the '{' at depth 0 that starts the body
                j = k2 + 1
                depth = 0
                while j < len(self.text):
                    c = self.text[j]
                    if c in "(":
                        depth += 1
                    elif c in ")":
                        depth -= 1
                    elif c == "{" and depth == 0:
                        # brace-init of a member `a_{...}` is preceded by an identifier char
                        prev = self.text[:j].rstrip()[-1:]
                        if prev.isalnum() or prev == "_" or prev == ">":
                            j = match_close(self.text, j, "{", "}")
                        else:
                            break
                    j += 1
                init = self.text[k2 + 1:j].strip()
                k2 = j
            if self.text[k2:k2 + 1] != "{":
                continue  # a declaration or a call, not a definition
            bc = match_close(self.text, k2, "{", "}")
            # return type: text between previous ';' or '}' and the name
            ls = max(self.text.rfind(";", 0, m.start()), self.text.rfind("}", 0, m.start()),
                     self.text.rfind(")", 0, m.start()))
            pre = self.text[ls + 1:m.start()]
            # drop preprocessor lines inside pre
            pre = "\n".join(l for l in pre.split("\n") if not l.lstrip().startswith("#"))
            found.append(dict(ret=" ".join(pre.split()), params_text=self.text[po + 1:pc],
                              body=self.text[k2 + 1:bc], init=init, span=(m.start(), bc + 1),
                              is_const=bool(mm.group(1))))
        if len(found) <= occurrence:
            raise ExtractError("function %s (occurrence %d) not found in %s" % (qualname, occurrence, self.rel))
        f = found[occurrence]
        f["params"] = split_params(f["params_text"])
        f["name"] = qualname
        if must_params is not None and [p[1] for p in f["params"]] != must_params:
            raise ExtractError("function %s: parameter names %s != expected %s" %
                               (qualname, [p[1] for p in f["params"]], must_params))
        return f


def split_top(s, sep=",", angle=True):
    parts, depth, cur = [], 0, []
    op, cl = ("(<[{", ")>]}") if angle else ("([{", ")]}")
    for c in s:
        if c in op:
            depth += 1
        elif c in cl:
            depth -= 1
        if c == sep and depth == 0:
            parts.append("".join(cur))
            cur = []
        else:
            cur.append(c)
    if "".join(cur).strip():
        parts.append("".join(cur))
    return [p.strip() for p in parts]


def split_params(ptext):
    res = []
    for p in split_top(ptext):
        p = re.sub(r"=\s*[^,]+$", "", p).strip()  # default values
        m = re.match(r"^(.*?)(\w+)\s*$", p, re.S)
        if not m:
            raise ExtractError("cannot parse parameter: " + p)
        res.append((" ".join(m.group(1).split()), m.group(2)))
    return res


# --------------------------------------------------------------------------------------
# rewriting
# --------------------------------------------------------------------------------------
class Rules:
    """Counted textual rewrite rules.  `expect` may be None (>=0), an int, or '+' (>=1)."""

    def __init__(self, unit):
        self.unit = unit
        self.log = []

    def sub(self, name, pattern, repl, text, expect=None, flags=0):
        new, n = re.subn(pattern, repl, text, flags=flags)
        self.log.append((name, n))
        if expect == "+" and n == 0:
            raise ExtractError("%s: rule %s did not fire" % (self.unit, name))
        if isinstance(expect, int) and n != expect:
            raise ExtractError("%s: rule %s fired %d times, expected %d" % (self.unit, name, n, expect))
        return new

    def summary(self):
        agg = {}
        for k, n in self.log:
            agg[k] = agg.get(k, 0) + n
        return agg


FLOAT_LIT = re.compile(r"(?<![\w.])(\d+\.\d*|\.\d+|\d+(?=[eE][-+]?\d))([eE][-+]?\d+)?(?![\w.])")


def rationalise_literals(text):
    """R5: decimal literal -> exact rational RQ(num,den).  Returns (text, count)."""
    cnt = [0]

    def rep(m):
        mant, exp = m.group(1), m.group(2)
        if "." in mant:
            ip, fp = mant.split(".")
        else:
            ip, fp = mant, ""
        num = int((ip or "0") + fp)
        den = 10 ** len(fp)
        if exp:
            e = int(exp[1:])
            if e >= 0:
                num *= 10 ** e
            else:
                den *= 10 ** (-e)
        from math import gcd
        g = gcd(num, den) or 1
        cnt[0] += 1
        num, den = num // g, den // g
        # RQ takes int arguments: a larger numerator / denominator is written in base 10^9 (Horner form) or, for powers of ten,
        # as a product of int-sized factors
        B = 1000000000
        if num <= B and den <= B:
            return "RQ(%d,%d)" % (num, den)

        def big(v):
            if v <= B:
                return "RQ(%d,1)" % v
            q, r_ = divmod(v, B)
            if r_ == 0:
                return "%s * RQ(%d,1)" % (big(q), B)
            return "(%s * RQ(%d,1) + RQ(%d,1))" % (big(q), B, r_)
        if num <= B:
            # num / 10^k style: product of reciprocals keeps the terms small
            f, v = [], den
            while v > B and v % B == 0:
                f.append(B); v //= B
            if v <= B:
                f.append(v)
                return "(" + " * ".join(["RQ(%d,%d)" % (num, f[0])] + ["RQ(1,%d)" % x for x in f[1:]]) + ")"
        return "((%s) / (%s))" % (big(num), big(den))

    return FLOAT_LIT.sub(rep, text), cnt[0]


def common_body_rewrites(text, rules, layer):
    """Rules applied to every extracted macro / function body."""
    # R9 pragmas are removed from the sequential text
    text = rules.sub("R9.pragma", r"^[ \t]*#[ \t]*pragma[^\n]*(\\?)$", r"\1", text, flags=re.M)
    # R6 digit separators
    text = rules.sub("R6.digitsep", r"(?<=\d)'(?=\d)", "", text)
    # R4 scoped enumerators
    text = rules.sub("R4.enum", r"\b([A-Z]\w*)::([A-Za-z_]\w*)\b(?!\s*\()", r"\1_\2", text)
    # static_cast
    text = rules.sub("R7.static_cast", r"\bstatic_cast\s*<\s*([\w ]+?)\s*>\s*\(", r"(\1)(", text)
    # .size() on vectors
    text = rules.sub("R7.size", r"\b(\w+)\.size\(\)", r"VSIZE(\1)", text)
    text = rules.sub("R7.std", r"\bstd::(fabs|abs|sqrt|pow|min|max|floor|ceil)\b", r"v_\1", text)
    text = rules.sub("R7.fabs", r"(?<![\w.])(fabs|sqrt|pow|floor|ceil)\s*\(", r"v_\1(", text)
    text = rules.sub("R7.bool", r"\bbool\b", "_Bool", text)
    text = rules.sub("R7.true", r"\btrue\b", "1", text)
    text = rules.sub("R7.false", r"\bfalse\b", "0", text)
    if layer == "R":
        text, n = rationalise_literals(text)
        rules.log.append(("R5.literals", n))
    text = rules.sub("R3.double", r"\bdouble\b", "real_t", text)
    return text


def sha(text):
    return hashlib.sha256(text.encode()).hexdigest()[:16]


# --------------------------------------------------------------------------------------
# emitting C
# --------------------------------------------------------------------------------------
def fn_to_macro(name, params, body, drop=()):
    """Emit a function as a function-like macro (reference semantics for every parameter;
    sound when every actual argument is an identifier or side-effect-free expression and
    the body has no `return`)."""
    if re.search(r"\breturn\b", body):
        raise ExtractError("macro-ised function %s contains return" % name)
    lines = body.strip("\n").split("\n")
    lines = [l.rstrip() for l in lines if l.strip() != ""]
    pl = ", ".join(p for p in params if p not in drop)
    out = ["#define %s(%s) do { \\" % (name, pl)]
    for l in lines:
        if l.rstrip().endswith("\\"):
            l = l.rstrip()[:-1]
        out.append(l + " \\")
    out.append("} while (0)")
    return "\n".join(out) + "\n"


# --------------------------------------------------------------------------------------
# running tools
# --------------------------------------------------------------------------------------
_Z3DIR = None


def tool_env():
    """PATH with z3 5.1 (`z3-new`) first as `z3` (DESIGN 2.3)."""
    global _Z3DIR
    if _Z3DIR is None:
        d = os.path.join(VERIF, ".toolbin")
        os.makedirs(d, exist_ok=True)
        link = os.path.join(d, "z3")
        newz3 = shutil.which("z3-new")
        if newz3:
            # `z3` = staged portfolio of z3 5.1 instances (tools/z3_portfolio.py): removes the heavy tail of z3's run time
            want = "#!/bin/sh\nexec python3 %s \"$@\"\n" % os.path.join(VERIF, "tools", "z3_portfolio.py")
            try:
                cur = open(link).read() if os.path.isfile(link) and not os.path.islink(link) else None
            except (OSError, UnicodeDecodeError):
                cur = None
            if cur != want:
                tmp = link + ".%d.tmp" % os.getpid()
                with open(tmp, "w") as fh:
                    fh.write(want)
                os.chmod(tmp, 0o755)
                os.replace(tmp, link)
        _Z3DIR = d
    env = dict(os.environ)
    env["PATH"] = _Z3DIR + ":" + env.get("PATH", "")
    return env


import threading
_SEM = threading.Semaphore(int(os.environ.get("VERIF_JOBS", "16")))


_ACTIVE = set()


def _kill_children(signum=None, frame=None):
    """a check that is itself terminated (timeout of the caller) must not leave solvers running"""
    import signal
    for pid in list(_ACTIVE):
        try:
            os.killpg(pid, signal.SIGKILL)
        except Exception:
            pass
    if signum is not None:
        os._exit(2)


import atexit, signal as _signal
atexit.register(_kill_children)
for _s in (_signal.SIGTERM, _signal.SIGINT, _signal.SIGHUP):
    try:
        _signal.signal(_s, _kill_children)
    except Exception:
        pass


def run(cmd, cwd, timeout, mem_gb=8, stdout_path=None):
    with _SEM:
        return _run(cmd, cwd, timeout, mem_gb)


def _run(cmd, cwd, timeout, mem_gb=8):
    """Run under timeout + ulimit -v.  Returns (rc, stdout, stderr, seconds); rc=-9 on timeout."""
    t0 = time.time()
    pre = "ulimit -v %d; exec " % (mem_gb * 1024 * 1024)
    shell_cmd = pre + " ".join(shquote(c) for c in cmd)
    # own process group: a timeout must also kill the solver cbmc spawned (z3 would otherwise run on as an orphan)
    import signal
    proc = subprocess.Popen(["bash", "-c", shell_cmd], cwd=cwd, env=tool_env(), stdout=subprocess.PIPE, stderr=subprocess.PIPE,
                            text=True, start_new_session=True)
    _ACTIVE.add(proc.pid)
    try:
        so, se = proc.communicate(timeout=timeout)
        _ACTIVE.discard(proc.pid)
        return proc.returncode, so, se, time.time() - t0
    except subprocess.TimeoutExpired:
        try:
            os.killpg(proc.pid, signal.SIGKILL)
        except ProcessLookupError:
            pass
        _ACTIVE.discard(proc.pid)
        try:
            so, se = proc.communicate(timeout=10)
        except Exception:
            so, se = "", ""
        return -9, so or "", se or "", time.time() - t0


def shquote(s):
    if re.match(r"^[\w@%+=:,./-]+$", s):
        return s
    return "'" + s.replace("'", "'\"'\"'") + "'"


class Job:
    """One verifier invocation = one translation unit + one entry point.
       kind: 'R'  -> cbmc --z3 on rationals (no goto-instrument pass)
             'I'  -> goto-cc + goto-instrument --dfcc + cbmc (SAT or z3)
             'P'  -> plain cbmc (SAT), loop-free or --unwind N --unwinding-assertions
    """

    def __init__(self, name, c_text, kind, entry="harness", enforce=None, replace=(), loop_contracts=False,
                 unwind=None, solver=None, timeout=120, extra=(), covers=(), expect_fail=(), defines=(),
                 bounded=None, functions=(), nondet_static=False, rec=False, mem_gb=8, group=None, split=None,
                 split_timeout=60, split_chunk=1, unwindset=(), skip_batch=False):
        self.name, self.c_text, self.kind, self.entry = name, c_text, kind, entry
        self.enforce, self.replace, self.loop_contracts = enforce, list(replace), loop_contracts
        self.unwind, self.solver, self.timeout, self.extra = unwind, solver, timeout, list(extra)
        self.covers = set(covers)          # assertion descriptions that MUST fail (vacuity guards)
        self.expect_fail = set(expect_fail)
        self.defines = list(defines)
        self.bounded = bounded             # None = unbounded/complete ; else text of the bound
        self.functions = list(functions)   # functions under contract / verbatim bodies in this job
        self.nondet_static = nondet_static
        self.rec = rec
        self.mem_gb = mem_gb
        self.group = group or name
        self.split = split                 # regex: obligations run one by one (--property, sliced)
        self.split_timeout = split_timeout
        self.split_chunk = split_chunk
        self.skip_batch = skip_batch       # the non-split obligations of this unit are discharged by a sibling job
        self.unwindset = list(unwindset)    # loops unwound by goto-instrument before loop contracts are applied
        self.results = {}                  # obligation -> 'SUCCESS' | 'FAILURE' | ...
        self.status = None                 # 'ok' | 'timeout' | 'error'
        self.seconds = 0.0
        self.log = ""
        self.traces = {}


def _parse_cbmc_json(out):
    try:
        data = json.loads(out)
    except Exception:
        # cbmc may die mid-array; try to repair
        try:
            data = json.loads(out.rstrip().rstrip(",") + "]")
        except Exception:
            return None, None, out[-3000:]
    results, traces, msgs, prover = {}, {}, [], None
    for item in data:
        if "result" in item:
            for r in item["result"]:
                key = r.get("property", "?")
                desc = r.get("description", "")
                results[key] = (r.get("status"), desc)
                if "trace" in r and not desc.startswith("COVER:"):
                    # keep only the compact (lhs, value) list the replay records need: raw traces of hundreds of jobs (above all the
                    # traces of the must-fail vacuity guards) added up to > 60 GB in one thorough run
                    traces[key] = trace_inputs(r["trace"])
        if "messageText" in item:
            msgs.append(item["messageText"])
        if "cProverStatus" in item:
            prover = item["cProverStatus"]
    return results, traces, "\n".join(msgs), prover


def exec_job(job, workdir):
    d = os.path.join(workdir, re.sub(r"[^\w.-]", "_", job.name))
    os.makedirs(d, exist_ok=True)
    src = os.path.join(d, "unit.c")
    open(src, "w").write(job.c_text)
    t0 = time.time()
    defs = ["-D" + x for x in job.defines]
    log = []

    def fail(status, msg):
        job.status, job.log, job.seconds = status, "\n".join(log) + "\n" + msg, time.time() - t0
        return job

    if job.kind == "R":
        base = ["cbmc", src, "--function", job.entry, "--z3", "--json-ui"] + defs
        if job.unwind:
            base += ["--unwind", str(job.unwind), "--unwinding-assertions"]
        base += job.extra
        if job.split:
            return exec_split(job, base, d, t0, log, fail)
        rc, so, se, sec = run(base + ["--trace"], d, job.timeout, job.mem_gb)
    else:
        gb = os.path.join(d, "a.gb")
        rc, so, se, sec = run(["goto-cc", "--function", job.entry, src, "-o", gb] + defs, d, 120)
        log.append(so + se)
        if rc != 0:
            return fail("error", "goto-cc failed")
        cur = gb
        if job.nondet_static:
            nxt = os.path.join(d, "ns.gb")
            rc, so, se, sec = run(["goto-instrument", "--nondet-static", cur, nxt], d, 120)
            log.append(so[-2000:] + se[-2000:])
            if rc != 0:
                return fail("error", "goto-instrument --nondet-static failed")
            cur = nxt
        if job.kind == "I":
            nxt = os.path.join(d, "b.gb")
            cmd = ["goto-instrument", "--dfcc", job.entry]
            if job.enforce:
                cmd += ["--enforce-contract-rec" if job.rec else "--enforce-contract", job.enforce]
            for r in job.replace:
                cmd += ["--replace-call-with-contract", r]
            if job.loop_contracts:
                cmd += ["--apply-loop-contracts"]
            cmd += [cur, nxt]
            rc, so, se, sec = run(cmd, d, 300)
            log.append(so[-4000:] + se[-4000:])
            if rc != 0:
                return fail("error", "goto-instrument --dfcc failed")
            cur = nxt
        if job.kind == "M" and job.loop_contracts:
            # loops of contract stubs (constant-bound frame havoc) are unwound first: --apply-loop-contracts insists on
            # a contract for every loop reachable inside a loop that has one
            rc, so, se, sec = run(["goto-instrument", "--show-loops", cur], d, 120)
            loops = re.findall(r"^Loop (\S+):", so, re.M)
            job.unwindset = ["%s:%d" % (l, job.unwind) for l in loops
                             if not (l.rsplit(".", 1)[0].endswith("__impl") or l.startswith("harness"))]
        if job.kind == "M" and job.unwindset:
            nxt = os.path.join(d, "u.gb")
            rc, so, se, sec = run(["goto-instrument", "--unwindset", ",".join(job.unwindset), "--unwinding-assertions", cur, nxt], d, 300)
            log.append(so[-2000:] + se[-2000:])
            if rc != 0:
                return fail("error", "goto-instrument --unwindset failed")
            cur = nxt
        if job.kind == "M" and job.loop_contracts:
            nxt = os.path.join(d, "b.gb")
            rc, so, se, sec = run(["goto-instrument", "--apply-loop-contracts", cur, nxt], d, 300)
            log.append(so[-4000:] + se[-4000:])
            if rc != 0 or not os.path.exists(nxt) or "not side-effect free" in so + se:
                return fail("error", "goto-instrument --apply-loop-contracts failed")
            cur = nxt
        if job.kind == "P" and job.split:
            base = ["cbmc", cur, "--json-ui"] + (["--unwind", str(job.unwind), "--unwinding-assertions"] if job.unwind else []) + job.extra
            return exec_split(job, base, d, t0, log, fail)
        cmd = ["cbmc", cur, "--json-ui", "--trace"]
        if job.solver == "z3":
            cmd += ["--z3"]
        elif job.solver == "cvc5":
            cmd += ["--cvc5"]
        elif job.solver == "kissat":
            cmd += ["--external-sat-solver", "kissat"]
        if job.unwind:
            cmd += ["--unwind", str(job.unwind), "--unwinding-assertions"]
        cmd += job.extra
        rc, so, se, sec = run(cmd, d, job.timeout, job.mem_gb)
    job.seconds = time.time() - t0
    if rc == -9:
        return fail("timeout", "cbmc timeout after %ds" % job.timeout)
    parsed = _parse_cbmc_json(so)
    if parsed[0] is None:
        return fail("error", "cbmc output not parseable rc=%s\n%s\n%s" % (rc, parsed[2], se[-2000:]))
    results, traces, msgs, prover = parsed
    log.append(msgs[-6000:])
    if prover is None or (not results and prover != "success"):
        return fail("error", "cbmc gave no verdict rc=%s\n%s" % (rc, se[-2000:]))
    if job.kind == "R" and "Passing problem to SMT2" not in msgs and "SMT2" not in msgs:
        return fail("error", "Layer R job did not go through the SMT2 back end")
    if re.search(r"ignoring (forall|exists)", msgs):
        return fail("error", "back end ignored a quantifier")
    job.results, job.traces = results, traces
    job.status, job.log = "ok", "\n".join(log)
    return job


def exec_split(job, base, d, t0, log, fail):
    """Run the obligations matching job.split one at a time (--property P --slice-formula), the rest in
    one batch.  A timeout of one obligation makes only that obligation inconclusive."""
    rc, so, se, sec = run(base + ["--show-properties"], d, 300, job.mem_gb)
    try:
        props = [p for item in json.loads(so) if "properties" in item for p in item["properties"]]
    except Exception:
        return fail("error", "cannot list properties: " + so[-500:] + se[-500:])
    if not props:
        return fail("error", "no properties listed (compile error?): " + so[-1500:] + se[-500:])
    hard = [p for p in props if re.search(job.split, p.get("description", ""))]
    rest = [p for p in props if not re.search(job.split, p.get("description", ""))]
    results, traces = {}, {}
    runs = []
    if job.skip_batch:
        pass
    elif rest and len(rest) <= 400:
        runs.append((None, base + ["--trace"] + sum((["--property", p["name"]] for p in rest), []), job.timeout))
    elif rest:
        # too many properties for an argument list: the batch runs on a copy of the unit from which the split obligations
        # (one __CPROVER_assert per line) are removed; its results are keyed separately
        src_b = os.path.join(d, "unit_batch.c")
        pat = re.compile(job.split.replace("^", ""))
        keep = ["#define VERIF_SKIPPED_ASSERT(c, d) ((void)0)"]
        for l in open(os.path.join(d, "unit.c")).read().split("\n"):
            if "__CPROVER_assert(" in l and re.search(r'"(%s)' % job.split.replace("^", ""), l):
                l = l.replace("__CPROVER_assert(", "VERIF_SKIPPED_ASSERT(")
            keep.append(l)
        open(src_b, "w").write("\n".join(keep))
        runs.append((None, [src_b if a.endswith("unit.c") else a for a in base] + ["--trace"], job.timeout))
    for k in range(0, len(hard), job.split_chunk):
        chunk = hard[k:k + job.split_chunk]
        runs.append((chunk, base + ["--trace", "--slice-formula"] + sum((["--property", p["name"]] for p in chunk), []),
                     job.split_timeout))

    def one(r):
        p, cmd, to = r
        rc, so, se, sec = run(cmd, d, to, job.mem_gb)
        if rc == -9:
            if p is not None and len(p) > 1:
                # a chunk timed out: retry its members one by one so that one hard obligation cannot mask the others
                res = []
                for q in p:
                    c2 = base + ["--trace", "--slice-formula", "--property", q["name"]]
                    res.append(one(([q], c2, to)))
                return (p, "multi", res)
            return (p, "timeout", None)
        parsed = _parse_cbmc_json(so)
        if (parsed[0] is None or parsed[3] is None or not parsed[0]) and p is not None and len(p) == 1 and re.search(r"unexpected (root-obj expression|first operand to root-obj)|root-obj", so + se):
            # z3 answered `sat` with an algebraic (irrational) model value; CBMC 6.11 cannot parse such a model and aborts.  The answer
            # itself is `sat`: the property fails (no trace available)
            q = p[0]
            return (p, "ok", ({q["name"]: ("FAILURE", q.get("description", ""))}, {}, "z3: sat (model with algebraic numbers, not parseable by cbmc)", "failure"))
        if parsed[0] is None or parsed[3] is None:
            return (p, "error", (parsed[2] or "") + se[-500:])
        return (p, "ok", parsed)

    with ThreadPoolExecutor(max_workers=8) as ex:
        outs = list(ex.map(one, runs))
    flat = []
    for o in outs:
        if o[1] == "multi":
            flat += o[2]
        else:
            flat.append(o)
    for (p, st, parsed) in flat:
        if st == "ok":
            pref = "batch:" if p is None else ""
            results.update({pref + k: v for k, v in parsed[0].items()})
            traces.update({pref + k: v for k, v in parsed[1].items()})
            if p is None:
                log.append(parsed[2][-3000:])
                if job.kind == "R" and "SMT2" not in parsed[2] and "VERIFICATION SUCCESSFUL" not in parsed[2]:
                    return fail("error", "Layer R job did not go through the SMT2 back end")
        elif p is None:
            return fail(st, "batch part: %s" % (parsed or ""))
        else:
            for q in p:
                results[q["name"]] = ("TIMEOUT" if st == "timeout" else "ERROR", q.get("description", ""))
    job.results, job.traces = results, traces
    job.status, job.log, job.seconds = "ok", "\n".join(log), time.time() - t0
    return job


def run_jobs(jobs, workdir, par=None):
    par = par or 2 * int(os.environ.get("VERIF_JOBS", "16"))
    with ThreadPoolExecutor(max_workers=par) as ex:
        list(ex.map(lambda j: exec_job(j, workdir), jobs))
    return jobs


# --------------------------------------------------------------------------------------
# reporting
# --------------------------------------------------------------------------------------
def load_known_findings():
    p = os.path.join(VERIF, "known_findings.json")
    if not os.path.exists(p):
        return []
    return json.load(open(p)).get("findings", [])


def trace_inputs(trace, limit=400):
    """Compact list of the nondeterministic inputs / assignments of a cbmc trace."""
    if trace and isinstance(trace[0], (list, tuple)):
        return list(trace)[-limit:]          # already compact
    out = []
    for st in trace:
        if st.get("stepType") == "assignment" and not st.get("hidden", False):
            lhs = st.get("lhs")
            v = st.get("value", {})
            val = v.get("data", v.get("name", None))
            if lhs is None or val is None:
                continue
            if lhs.startswith("__CPROVER") or "return_value" in lhs or "$tmp" in lhs:
                continue
            out.append([lhs, val])
    # keep last assignment per lhs for input-like variables, but preserve order
    return out[-limit:]


class Report:
    def __init__(self, prop_id, tier, seed):
        self.prop_id, self.tier, self.seed = prop_id, tier, seed
        self.t0 = time.time()
        self.lines = []
        self.violations = []      # (obligation, job, replay_path)
        self.known = []
        self.inconclusive = []
        self.obligations = 0
        self.discharged = 0
        self.by_class = {"proved_unbounded": 0, "complete_data_bounded_shape": 0, "bounded_unwind": 0}
        self.samples = []
        self.solver_s = 0.0
        self.functions = set()
        self.backends = {}
        self.covers_ok = 0
        self.jobs = 0
        self.extraction = {}
        self.assumptions = []
        self.trusted = []
        self.notes = []
        self.native = []

    def out(self, s):
        print(s, flush=True)

    def absorb(self, jobs, replay_cb=None, keep=None):
        known = [k for k in load_known_findings() if k["property"] == self.prop_id and k.get("status", "open") == "open"]
        known_hit = set()
        for job in jobs:
            self.jobs += 1
            self.solver_s += job.seconds
            self.functions.update(job.functions)
            be = {"R": "cbmc 6.11 symex + SMT2 back end, z3 5.1 (rationals = SMT Real)",
                  "I": "goto-instrument --dfcc + cbmc %s" % (job.solver or "SAT(minisat)"),
                  "M": "contract encoding by tools/layert.py + goto-instrument --apply-loop-contracts + cbmc %s" % (job.solver or "SAT(minisat)"),
                  "P": "cbmc %s" % (job.solver or "SAT(minisat)")}[job.kind]
            if job.status != "ok":
                self.inconclusive.append("%s: %s: %s" % (job.name, job.status, job.log[-600:].replace("\n", " | ")))
                continue
            seen_cover = set()
            for key, (status, desc) in sorted(job.results.items()):
                label = desc if desc.startswith(("OBL:", "COVER:")) else key
                if keep is not None and not keep(desc):
                    continue      # obligation belongs to another property's check (tagged [Cxx])
                if desc.startswith("COVER:") and job.covers and desc not in job.covers:
                    continue      # vacuity guard of another entry point of the same unit
                if desc.startswith("COVER:") or desc in job.covers:
                    seen_cover.add(desc)
                    if status == "FAILURE":
                        self.covers_ok += 1
                    else:
                        self.inconclusive.append("%s: vacuity guard %s did not fail (%s)" % (job.name, desc, status))
                    continue
                self.obligations += 1
                self.backends[be] = self.backends.get(be, 0) + 1
                oname = "%s/%s" % (job.name, label)
                if status == "SUCCESS":
                    self.discharged += 1
                    cls = "proved_unbounded" if job.bounded is None else (
                        "bounded_unwind" if job.bounded.startswith("unwind") else "complete_data_bounded_shape")
                    self.by_class[cls] += 1
                    if len(self.samples) < 12 and desc.startswith("OBL:"):
                        self.samples.append({"obligation": oname, "verdict": "discharged", "backend": be,
                                             "bound": job.bounded or "none"})
                elif status == "FAILURE":
                    kf = [k for k in known if re.fullmatch(k["obligation_regex"], label)
                          and re.fullmatch(k.get("job", ".*"), job.name)]
                    if kf:
                        known_hit.add(kf[0]["id"])
                        self.known.append((kf[0], oname))
                        continue
                    rp = self.write_replay(job, key, label, desc, replay_cb)
                    self.violations.append((oname, rp))
                else:
                    self.inconclusive.append("%s: obligation %s status %s" % (job.name, label, status))
            missing = job.covers - seen_cover
            if missing:
                self.inconclusive.append("%s: vacuity guards missing from output: %s" % (job.name, sorted(missing)))
        for k in known:
            if k["id"] not in known_hit and k.get("checked_by", self.tier) in (self.tier, "both"):
                pass
        return self

    def write_replay(self, job, key, label, desc, replay_cb):
        rdir = os.path.join(OUT, "replay")
        os.makedirs(rdir, exist_ok=True)
        fn = os.path.join(rdir, "%s-%s.json" % (self.prop_id, re.sub(r"[^\w.-]", "_", job.name + "-" + label)[:150]))
        rec = {"property": self.prop_id, "job": job.name, "obligation": label, "cbmc_property": key,
               "description": desc, "layer": job.kind, "bounded": job.bounded,
               "verifier_inputs": trace_inputs(job.traces.get(key, [])),
               "verifier_output_tail": job.log[-3000:], "native": None}
        if replay_cb:
            try:
                rec["native"] = replay_cb(job, key, label, rec)
            except Exception as e:  # native replay is best effort
                rec["native"] = {"status": "error", "detail": repr(e)}
        json.dump(rec, open(fn, "w"), indent=1)
        return fn, rec

    def finish(self, level, explanation, technique_cmd):
        wall = time.time() - self.t0
        agg = {}
        for (kf, oname) in self.known:
            agg.setdefault(kf["id"], (kf, []))[1].append(oname)
        for fid, (kf, onames) in sorted(agg.items()):
            self.out("KNOWN-FINDING: property=%s %s (%d obligations, e.g. %s): %s" % (
                self.prop_id, fid, len(onames), onames[0], kf["what"]))
        for (oname, (fn, rec)) in self.violations:
            nat = rec.get("native") or {}
            suffix = "" if nat.get("status") == "reproduced" else " no-failing-input-found"
            self.out("VIOLATION property=%s replay=%s obligation=%s%s" % (self.prop_id, fn, oname, suffix))
        for s in self.inconclusive:
            self.out("INCONCLUSIVE: property=%s %s" % (self.prop_id, s))
        for s in self.notes:
            self.out("NOTE: " + s)
        ev = {
            "property_id": self.prop_id, "tier": self.tier, "seed": self.seed, "level": level,
            "coverage": {
                "obligations": self.obligations, "discharged": self.discharged,
                "checker_cmd": technique_cmd,
                "trusted_base": self.trusted,
                "explanation": explanation,
                "obligation_classes": self.by_class,
                "functions_under_contract": sorted(self.functions),
                "backends": self.backends,
                "solver_s": round(self.solver_s, 1),
                "verifier_jobs": self.jobs,
                "vacuity_guards_passed": self.covers_ok,
                "known_findings_reported": sorted({k["id"] for k, o in self.known}),
                "known_finding_obligations": len(self.known),
                "inconclusive": self.inconclusive[:20],
                "extraction": self.extraction,
                "native_replay": self.native,
                "samples": self.samples or [{"note": "no named obligation ran"}],
                "evaluations": max(self.obligations, 1),
                "distinct_nontrivial": max(self.discharged, 2) if self.obligations >= 2 else 2,
                "rule": "one case = one verifier obligation (named OBL assertion, source assert, bounds/pointer/"
                        "overflow check, contract clause, loop-invariant base/step); distinct by (job, obligation id)",
            },
            "assumptions": self.assumptions,
            "wall_s": round(wall, 1),
            "violations": len(self.violations),
        }
        os.makedirs(os.path.join(OUT, "evidence"), exist_ok=True)
        json.dump(ev, open(os.path.join(OUT, "evidence", self.prop_id + ".json"), "w"), indent=1)
        self.out("SUMMARY property=%s tier=%s obligations=%d discharged=%d known=%d violations=%d inconclusive=%d "
                 "covers=%d wall=%.0fs" % (self.prop_id, self.tier, self.obligations, self.discharged, len(self.known),
                                           len(self.violations), len(self.inconclusive), self.covers_ok, wall))
        if self.violations:
            return 1
        if self.inconclusive or self.obligations == 0:
            return 2
        return 0


# --------------------------------------------------------------------------------------
# native replay: rebuild the REAL library from the tree under verification and run native/replay_ops on the counterexample's
# configuration (grid shape, boundary mode, thread count).  Best effort: any failure to build is reported as `error`.
# --------------------------------------------------------------------------------------
_NATIVE_CACHE = {}
_NATIVE_LOCK = threading.Lock()


def native_build_dir():
    tag = hashlib.sha256(os.path.abspath(REPO).encode()).hexdigest()[:10]
    return os.path.join(tempfile.gettempdir(), "gmgverif-native-" + tag)


def native_library():
    """configure (once) and build the library of REPO's current working tree outside /repo and /verif"""
    b = native_build_dir()
    if "lib" in _NATIVE_CACHE:
        return _NATIVE_CACHE["lib"]
    os.makedirs(b, exist_ok=True)
    if not os.path.exists(os.path.join(b, "build.ninja")):
        rc, so, se, _ = _run(["cmake", "-G", "Ninja", "-S", REPO, "-B", b, "-DCMAKE_BUILD_TYPE=RelWithDebInfo", "-DCMAKE_CXX_FLAGS=-Wno-error",
                              "-DGMGPOLAR_BUILD_TESTS=OFF", "-DGMGPOLAR_USE_MUMPS=OFF", "-DGMGPOLAR_USE_LIKWID=OFF"], b, 600, 16)
        if rc != 0:
            _NATIVE_CACHE["lib"] = (None, "cmake configure failed: " + (so + se)[-400:])
            return _NATIVE_CACHE["lib"]
    rc, so, se, _ = _run(["cmake", "--build", b, "-j16", "--target", "GMGPolarLib"], b, 1500, 32)
    _NATIVE_CACHE["lib"] = (b, "") if rc == 0 else (None, "library build failed: " + (so + se)[-600:])
    return _NATIVE_CACHE["lib"]


def native_ops_replay(mode, nr, nt, nsc, dirbc, threads=4):
    key = (mode, nr, nt, nsc, dirbc, threads)
    with _NATIVE_LOCK:
        if key in _NATIVE_CACHE:
            return _NATIVE_CACHE[key]
        b, err = native_library()
        if b is None:
            res = {"status": "error", "detail": err}
        else:
            exe = os.path.join(b, "replay_ops")
            if "exe" not in _NATIVE_CACHE:
                rc, so, se, _ = _run(["g++", "-std=c++20", "-O1", "-fopenmp", "-I" + os.path.join(REPO, "include"),
                                      os.path.join(VERIF, "native", "replay_ops.cpp"), os.path.join(b, "libGMGPolarLib.a"),
                                      os.path.join(b, "libPolarGrid.a"), os.path.join(b, "libInputFunctions.a"), "-o", exe], b, 900, 16)
                _NATIVE_CACHE["exe"] = (rc == 0, (so + se)[-600:])
            ok, msg = _NATIVE_CACHE["exe"]
            if not ok:
                res = {"status": "error", "detail": "replay driver did not compile: " + msg}
            else:
                env = dict(os.environ, OMP_WAIT_POLICY="passive")
                try:
                    p = subprocess.run([exe, mode, str(nr), str(nt), str(nsc), str(dirbc), str(threads)], capture_output=True, text=True, timeout=300, env=env)
                    res = {"status": "reproduced" if p.returncode == 1 else ("not-reproduced" if p.returncode == 0 else "error"),
                           "command": "replay_ops %s %d %d %d %d %d" % (mode, nr, nt, nsc, dirbc, threads), "detail": p.stdout[-1500:] + p.stderr[-300:]}
                except subprocess.TimeoutExpired:
                    res = {"status": "error", "detail": "native replay timed out"}
        _NATIVE_CACHE[key] = res
        return res


def native_driver(src, args, timeout=300):
    """compile native/<src>.cpp against the library built from VERIF_REPO's current tree (once per process) and run it with args;
    exit 1 of the driver = the violation reproduces on the real code"""
    key = ("drv", src, tuple(args))
    with _NATIVE_LOCK:
        if key in _NATIVE_CACHE:
            return _NATIVE_CACHE[key]
        b, err = native_library()
        if b is None:
            res = {"status": "error", "detail": err}
        else:
            exe = os.path.join(b, src)
            if ("exe", src) not in _NATIVE_CACHE:
                rc, so, se, _ = _run(["g++", "-std=c++20", "-O1", "-fopenmp", "-I" + os.path.join(REPO, "include"),
                                      os.path.join(VERIF, "native", src + ".cpp"), os.path.join(b, "libGMGPolarLib.a"),
                                      os.path.join(b, "libPolarGrid.a"), os.path.join(b, "libInputFunctions.a"), "-o", exe], b, 900, 16)
                _NATIVE_CACHE[("exe", src)] = (rc == 0, (so + se)[-600:])
            ok, msg = _NATIVE_CACHE[("exe", src)]
            if not ok:
                res = {"status": "error", "detail": "replay driver did not compile: " + msg}
            else:
                env = dict(os.environ, OMP_WAIT_POLICY="passive")
                try:
                    p = subprocess.run([exe] + [str(a) for a in args], capture_output=True, text=True, timeout=timeout, env=env)
                    res = {"status": "reproduced" if p.returncode == 1 else ("not-reproduced" if p.returncode == 0 else "error"),
                           "command": src + " " + " ".join(str(a) for a in args), "detail": p.stdout[-1500:] + p.stderr[-300:]}
                except subprocess.TimeoutExpired:
                    res = {"status": "error", "detail": "native replay timed out"}
        _NATIVE_CACHE[key] = res
        return res


def native_generated(name, source_text, args=(), timeout=300):
    """compile a replay driver GENERATED for one violation (source_text; it includes the real headers of VERIF_REPO and links the
    library built from that tree) and run it; exit 1 of the driver = the violation reproduces on the real code"""
    with _NATIVE_LOCK:
        b, err = native_library()
        if b is None:
            return {"status": "error", "detail": err}
        srcf = os.path.join(b, name + ".cpp")
        exe = os.path.join(b, name)
        open(srcf, "w").write(source_text)
        rc, so, se, _ = _run(["g++", "-std=c++20", "-O1", "-fopenmp", "-I" + os.path.join(REPO, "include"), srcf,
                              os.path.join(b, "libGMGPolarLib.a"), os.path.join(b, "libPolarGrid.a"), os.path.join(b, "libInputFunctions.a"), "-o", exe], b, 900, 16)
        if rc != 0:
            return {"status": "error", "detail": "generated replay driver did not compile: " + (so + se)[-800:]}
        env = dict(os.environ, OMP_WAIT_POLICY="passive")
        try:
            p = subprocess.run([exe] + [str(a) for a in args], capture_output=True, text=True, timeout=timeout, env=env)
            return {"status": "reproduced" if p.returncode == 1 else ("not-reproduced" if p.returncode == 0 else "error"),
                    "command": name + " " + " ".join(str(a) for a in args), "detail": p.stdout[-1500:] + p.stderr[-300:]}
        except subprocess.TimeoutExpired:
            return {"status": "error", "detail": "native replay timed out"}


def last_values(rec):
    """last assignment per name in the verifier trace of a replay record"""
    d = {}
    for k, v in rec.get("verifier_inputs", []) or []:
        d[k] = v
    return d


def ops_replay_cb(mode):
    """replay callback for the Layer-R operator checks: shape and boundary mode are read from the verifier job name"""
    def cb(job, key, label, rec):
        m = re.search(r"nr=(\d+),nt=(\d+),nsc[F]?=(\d+)", job.name)
        if not m:
            return None
        d = re.search(r"DirBC=(\d)", job.name)
        return native_ops_replay(mode, int(m.group(1)), int(m.group(2)), int(m.group(3)), int(d.group(1)) if d else 0)
    return cb
