#!/usr/bin/env python3
"""Reusable extracted building blocks (PolarGrid instances, LevelCache, preludes)."""
import re
from vlib import Src, Rules, ExtractError, common_body_rewrites, fn_to_macro, sha

PRELUDE_R = r"""
/* ---- generated prelude, Layer R: real_t is a mathematical real (SMT sort Real) ---- */
typedef __CPROVER_rational real_t;
static real_t RQ(int a, int b) { real_t x = a; real_t y = b; return x / y; }  /* exact literal a/b (R5) */
#define VSIZE(a) (a##_size)
#define assert(c) __CPROVER_assert((c), "source assert: " #c)
typedef __CPROVER_size_t size_t;
real_t nondet_real(void);
int nondet_int(void);
_Bool nondet_bool(void);
static real_t v_fabs(real_t a) { return a < 0 ? -a : a; }
"""

PRELUDE_I = r"""
/* ---- generated prelude, Layer I: real_t is IEEE double, data path sliced away ---- */
typedef double real_t;
#define RQ(a,b) (((real_t)(a))/((real_t)(b)))
#define VSIZE(a) (a##_size)
#define assert(c) __CPROVER_assert((c), "source assert: " #c)
typedef __CPROVER_size_t size_t;
real_t nondet_real(void);
int nondet_int(void);
_Bool nondet_bool(void);
static real_t v_fabs(real_t a) { return a < 0 ? -a : a; }
"""

POLARGRID_METHODS = ["nr", "ntheta", "numberOfNodes", "radius", "theta", "numberSmootherCircles",
                     "lengthSmootherRadial", "numberCircularSmootherNodes", "numberRadialSmootherNodes",
                     "radialSpacing", "angularSpacing", "wrapThetaIndex", "index", "fastIndex"]
POLARGRID_FIELDS = ["nr_", "ntheta_", "is_ntheta_PowerOfTwo_", "radii_", "angles_", "radial_spacings_",
                    "angular_spacings_", "smoother_splitting_radius_", "number_smoother_circles_",
                    "length_smoother_radial_", "number_circular_smoother_nodes_", "number_radial_smoother_nodes_"]

POLARGRID_STRUCT = r"""
struct PolarGrid {
    int (*nr)(void); int (*ntheta)(void); int (*numberOfNodes)(void);
    real_t (*radius)(const int); real_t (*theta)(const int);
    int (*numberSmootherCircles)(void); int (*lengthSmootherRadial)(void);
    int (*numberCircularSmootherNodes)(void); int (*numberRadialSmootherNodes)(void);
    real_t (*radialSpacing)(const int); real_t (*angularSpacing)(const int);
    int (*wrapThetaIndex)(const int); int (*index)(const int, const int); int (*fastIndex)(const int, const int);
};
"""


def check_header_members(rules):
    """must-fire: every member the instantiation renames exists in polargrid.h"""
    h = Src.get("include/PolarGrid/polargrid.h").text
    for f in POLARGRID_FIELDS:
        if not re.search(r"\b%s\s*;" % re.escape(f), h):
            raise ExtractError("PolarGrid field %s not found in polargrid.h" % f)
    for m in POLARGRID_METHODS:
        if not re.search(r"\b%s\s*\(" % re.escape(m), h):
            raise ExtractError("PolarGrid method %s not found in polargrid.h" % m)


def polargrid_instance(G, layer, rules, maxr, maxt, hashes=None, const_shape=None):
    """R10 class instantiation: emit the inline member functions of PolarGrid (verbatim bodies from
    include/PolarGrid/polargrid.inl) for one object G; every member identifier m becomes G__m.
    The object itself is `static const struct PolarGrid G` whose members are function pointers, so that
    `G.index(i, j)` in extracted text compiles unchanged."""
    check_header_members(rules)
    src = Src.get("include/PolarGrid/polargrid.inl")
    members = POLARGRID_METHODS + POLARGRID_FIELDS + ["multiIndex"]
    out = ["/* ---- PolarGrid instance %s (bodies verbatim from include/PolarGrid/polargrid.inl) ---- */" % G]
    out.append("static int %s__nr_, %s__ntheta_; static _Bool %s__is_ntheta_PowerOfTwo_;" % (G, G, G))
    out.append("static int %s__number_smoother_circles_, %s__length_smoother_radial_, "
               "%s__number_circular_smoother_nodes_, %s__number_radial_smoother_nodes_;" % (G, G, G, G))
    out.append("static real_t %s__radii_[%d]; static real_t %s__angles_[%d];" % (G, maxr, G, maxt + 1))
    out.append("static real_t %s__radial_spacings_[%d]; static real_t %s__angular_spacings_[%d];" % (G, maxr, G, maxt))
    out.append("#define %s__radii__size ((size_t)%s__nr_)" % (G, G))
    out.append("#define %s__angles__size ((size_t)(%s__ntheta_ + 1))" % (G, G))
    out.append("#define %s__radial_spacings__size ((size_t)(%s__nr_ - 1))" % (G, G))
    out.append("#define %s__angular_spacings__size ((size_t)%s__ntheta_)" % (G, G))

    def inst(text):
        return re.sub(r"\b(" + "|".join(map(re.escape, members)) + r")\b", lambda m: G + "__" + m.group(1), text)

    protos, defs = [], []
    for mname in POLARGRID_METHODS:
        f = src.function("PolarGrid::" + mname)
        if hashes is not None:
            hashes["PolarGrid::" + mname] = sha(f["body"])
        body = common_body_rewrites(f["body"], rules, layer)
        ret = "real_t" if "double" in f["ret"] else "int"
        ps = ", ".join("const int " + p[1] for p in f["params"]) or "void"
        protos.append("static %s %s__%s(%s);" % (ret, G, mname, ps))
        defs.append("static %s %s__%s(%s)\n{%s}\n" % (ret, G, mname, ps, inst(body)))
    # 3-argument multiIndex has int& out-parameters -> macro (reference semantics)
    f = src.function("PolarGrid::multiIndex")
    if [p[1] for p in f["params"]] != ["node_index", "r_index", "theta_index"]:
        raise ExtractError("PolarGrid::multiIndex signature changed")
    if hashes is not None:
        hashes["PolarGrid::multiIndex"] = sha(f["body"])
    body = inst(common_body_rewrites(f["body"], rules, layer))
    defs.append(fn_to_macro(G + "__multiIndex", ["node_index", "r_index", "theta_index"], body))
    out += protos + defs
    out.append("static const struct PolarGrid %s = { %s };" % (
        G, ", ".join(".%s = %s__%s" % (m, G, m) for m in POLARGRID_METHODS)))
    return "\n".join(out) + "\n"


def grid_setup_concrete(G, nr, ntheta, nsc, symbolic_geometry=True, consistent_radii=True):
    """Harness text: give instance G a concrete shape; radii/angles/spacings are symbolic reals with the
    class invariant of PolarGrid (strictly increasing radii from R0 > 0, positive spacings equal to the
    coordinate differences)."""
    lsr = nr - nsc
    pow2 = 1 if (ntheta & (ntheta - 1)) == 0 else 0
    t = []
    t.append("  %s__nr_ = %d; %s__ntheta_ = %d; %s__is_ntheta_PowerOfTwo_ = %d;" % (G, nr, G, ntheta, G, pow2))
    t.append("  %s__number_smoother_circles_ = %d; %s__length_smoother_radial_ = %d;" % (G, nsc, G, lsr))
    t.append("  %s__number_circular_smoother_nodes_ = %d; %s__number_radial_smoother_nodes_ = %d;" % (
        G, nsc * ntheta, G, lsr * ntheta))
    t.append("  %s__radii_[0] = nondet_real(); __CPROVER_assume(%s__radii_[0] > 0);" % (G, G))
    for i in range(nr - 1):
        t.append("  %s__radial_spacings_[%d] = nondet_real(); __CPROVER_assume(%s__radial_spacings_[%d] > 0);" % (G, i, G, i))
        t.append("  %s__radii_[%d] = %s__radii_[%d] + %s__radial_spacings_[%d];" % (G, i + 1, G, i, G, i))
    t.append("  %s__angles_[0] = 0;" % G)
    for j in range(ntheta):
        t.append("  %s__angular_spacings_[%d] = nondet_real(); __CPROVER_assume(%s__angular_spacings_[%d] > 0);" % (G, j, G, j))
        t.append("  %s__angles_[%d] = %s__angles_[%d] + %s__angular_spacings_[%d];" % (G, j + 1, G, j, G, j))
    return "\n".join(t) + "\n"


VEC_TYPE = re.compile(r"(Vector\s*<|std::vector\s*<)")


def classify_params(f):
    """-> list of (kind, ctype, name); kind in vec | obj | out | val"""
    res = []
    for (ty, name) in f["params"]:
        t = ty.replace("const", "").strip()
        if VEC_TYPE.search(ty):
            res.append(("vec", None, name))
        elif re.match(r"^(double|int|bool)\s*&$", t) and "const" not in ty:
            res.append(("out", t[:-1].strip(), name))
        elif re.match(r"^(double|int|bool|size_t)\s*&?$", t):
            res.append(("val", t.rstrip("&").strip(), name))
        elif re.match(r"^[A-Z]\w*\s*&?$", t):
            base = t.rstrip("&").strip()
            res.append(("obj", base, name))
        elif re.match(r"^T\s*\*$", t) or re.match(r"^double\s*\*$", t):
            res.append(("vec", None, name))
        else:
            raise ExtractError("unclassified parameter `%s %s` of %s" % (ty, name, f["name"]))
    return res


CTYPE = {"double": "real_t", "int": "int", "bool": "_Bool", "size_t": "size_t"}


def emit_function_globals(cname, f, rules, layer, callname=None, enum_types=()):
    """Layer R emission (R3): vector and object reference parameters are dropped from the signature and
    denote file-scope objects OF THE SAME NAME (the harness declares them); value parameters stay.
    A wrapper macro with the original arity keeps every call site in extracted text verbatim and checks
    nothing at run time; the extractor checks that call sites pass identically named vectors."""
    if re.search(r"\breturn\b[^;]*[^;\s]", f["body"]) and f["ret"].split()[-1:] == ["void"]:
        pass
    kinds = classify_params(f)
    body = common_body_rewrites(f["body"], rules, layer)
    keep = [(k, t, n) for (k, t, n) in kinds if k == "val"]
    outs = [n for (k, t, n) in kinds if k == "out"]
    if outs:
        raise ExtractError("%s has out-parameters; emit it as a macro" % f["name"])
    def cty(t):
        return CTYPE.get(t, "int" if t in enum_types else t)
    sig = ", ".join("const %s %s" % (cty(t), n) for (k, t, n) in keep) or "void"
    ret = f["ret"].replace("inline", "").replace("static", "").replace("const", "").replace("&", "").strip() or "void"
    ret = re.sub(r"template\s*<[^>]*>", "", ret).strip()
    ret = CTYPE.get(ret, ret)
    allnames = [n for (_, _, n) in kinds]
    impl = cname + "__impl"
    wrapper = "#define %s(%s) %s(%s)" % (callname or cname, ", ".join(allnames), impl,
                                         ", ".join(n for (_, _, n) in keep))
    text = "static %s %s(%s)\n{%s}\n" % (ret, impl, sig, body)
    return dict(text=text, wrapper=wrapper, kinds=kinds, impl=impl, name=callname or cname)


def check_call_sites(text, callee, kinds):
    """every call `callee(args)` in text passes, at each vec/obj position, an identifier equal to the
    callee's parameter name (so that dropping the argument is meaning-preserving)."""
    n = 0
    for m in re.finditer(r"(?<![\w.])" + re.escape(callee) + r"\s*\(", text):
        from vlib import match_close, split_top
        po = m.end() - 1
        pc = match_close(text, po, "(", ")")
        args = split_top(text[po + 1:pc])
        if len(args) != len(kinds):
            raise ExtractError("call of %s with %d args, expected %d" % (callee, len(args), len(kinds)))
        for a, (k, t, name) in zip(args, kinds):
            if k in ("vec", "obj") and a.strip() != name:
                raise ExtractError("call of %s passes `%s` for reference parameter `%s`" % (callee, a, name))
        n += 1
    return n
