#!/usr/bin/env python3
"""Reusable extracted building blocks (PolarGrid instances, LevelCache, preludes)."""
import re
from vlib import Src, Rules, ExtractError, common_body_rewrites, fn_to_macro, sha

PRELUDE_R = r"""
/* ---- generated prelude, Layer R: real_t is a mathematical real (SMT sort Real) ---- */
typedef __CPROVER_rational real_t;
static real_t RQ(int a, int b) { real_t x = a; real_t y = b; return x / y; }  /* exact literal a/b (R5) */
#define VSIZE(a) (a##_size)
#define assert(c) __CPROVER_assert((c), "source assert: " #c)
typedef __CPROVER_size_t size_t;
real_t nondet_real(void);
int nondet_int(void);
_Bool nondet_bool(void);
static real_t v_fabs(real_t a) { return a < 0 ? -a : a; }
"""

PRELUDE_I = r"""
/* ---- generated prelude, Layer I: real_t is IEEE double, data path sliced away ---- */
typedef double real_t;
#define RQ(a,b) (((real_t)(a))/((real_t)(b)))
#define VSIZE(a) (a##_size)
#define assert(c) __CPROVER_assert((c), "source assert: " #c)
typedef __CPROVER_size_t size_t;
real_t nondet_real(void);
int nondet_int(void);
_Bool nondet_bool(void);
static real_t v_fabs(real_t a) { return a < 0 ? -a : a; }
"""

POLARGRID_METHODS = ["nr", "ntheta", "numberOfNodes", "radius", "theta", "numberSmootherCircles",
                     "lengthSmootherRadial", "numberCircularSmootherNodes", "numberRadialSmootherNodes",
                     "radialSpacing", "angularSpacing", "wrapThetaIndex", "index", "fastIndex"]
POLARGRID_FIELDS = ["nr_", "ntheta_", "is_ntheta_PowerOfTwo_", "radii_", "angles_", "radial_spacings_",
                    "angular_spacings_", "smoother_splitting_radius_", "number_smoother_circles_",
                    "length_smoother_radial_", "number_circular_smoother_nodes_", "number_radial_smoother_nodes_"]

POLARGRID_STRUCT = r"""
struct PolarGrid {
    int (*nr)(void); int (*ntheta)(void); int (*numberOfNodes)(void);
    real_t (*radius)(const int); real_t (*theta)(const int);
    int (*numberSmootherCircles)(void); int (*lengthSmootherRadial)(void);
    int (*numberCircularSmootherNodes)(void); int (*numberRadialSmootherNodes)(void);
    real_t (*radialSpacing)(const int); real_t (*angularSpacing)(const int);
    int (*wrapThetaIndex)(const int); int (*index)(const int, const int); int (*fastIndex)(const int, const int);
};
"""


def check_header_members(rules):
    """must-fire: every member the instantiation renames exists in polargrid.h"""
    h = Src.get("include/PolarGrid/polargrid.h").text
    for f in POLARGRID_FIELDS:
        if not re.search(r"\b%s\s*;" % re.escape(f), h):
            raise ExtractError("PolarGrid field %s not found in polargrid.h" % f)
    for m in POLARGRID_METHODS:
        if not re.search(r"\b%s\s*\(" % re.escape(m), h):
            raise ExtractError("PolarGrid method %s not found in polargrid.h" % m)


def polargrid_instance(G, layer, rules, maxr, maxt, hashes=None, const_shape=None):
    """R10 class instantiation: emit the inline member functions of PolarGrid (verbatim bodies from
    include/PolarGrid/polargrid.inl) for one object G; every member identifier m becomes G__m.
    The object itself is `static const struct PolarGrid G` whose members are function pointers, so that
    `G.index(i, j)` in extracted text compiles unchanged."""
    check_header_members(rules)
    src = Src.get("include/PolarGrid/polargrid.inl")
    members = POLARGRID_METHODS + POLARGRID_FIELDS + ["multiIndex"]
    out = ["/* ---- PolarGrid instance %s (bodies verbatim from include/PolarGrid/polargrid.inl) ---- */" % G]
    out.append("static int %s__nr_, %s__ntheta_; static _Bool %s__is_ntheta_PowerOfTwo_;" % (G, G, G))
    out.append("static int %s__number_smoother_circles_, %s__length_smoother_radial_, "
               "%s__number_circular_smoother_nodes_, %s__number_radial_smoother_nodes_;" % (G, G, G, G))
    out.append("static real_t %s__radii_[%d]; static real_t %s__angles_[%d];" % (G, maxr, G, maxt + 1))
    out.append("static real_t %s__radial_spacings_[%d]; static real_t %s__angular_spacings_[%d];" % (G, maxr, G, maxt))
    out.append("#define %s__radii__size ((size_t)%s__nr_)" % (G, G))
    out.append("#define %s__angles__size ((size_t)(%s__ntheta_ + 1))" % (G, G))
    out.append("#define %s__radial_spacings__size ((size_t)(%s__nr_ - 1))" % (G, G))
    out.append("#define %s__angular_spacings__size ((size_t)%s__ntheta_)" % (G, G))

    def inst(text):
        return re.sub(r"\b(" + "|".join(map(re.escape, members)) + r")\b", lambda m: G + "__" + m.group(1), text)

    protos, defs = [], []
    for mname in POLARGRID_METHODS:
        f = src.function("PolarGrid::" + mname)
        if hashes is not None:
            hashes["PolarGrid::" + mname] = sha(f["body"])
        body = common_body_rewrites(f["body"], rules, layer)
        ret = "real_t" if "double" in f["ret"] else "int"
        ps = ", ".join("const int " + p[1] for p in f["params"]) or "void"
        protos.append("static %s %s__%s(%s);" % (ret, G, mname, ps))
        defs.append("static %s %s__%s(%s)\n{%s}\n" % (ret, G, mname, ps, inst(body)))
    # 3-argument multiIndex has int& out-parameters -> macro (reference semantics)
    f = src.function("PolarGrid::multiIndex")
    if [p[1] for p in f["params"]] != ["node_index", "r_index", "theta_index"]:
        raise ExtractError("PolarGrid::multiIndex signature changed")
    if hashes is not None:
        hashes["PolarGrid::multiIndex"] = sha(f["body"])
    body = inst(common_body_rewrites(f["body"], rules, layer))
    defs.append(fn_to_macro(G + "__multiIndex", ["node_index", "r_index", "theta_index"], body))
    out += protos + defs
    out.append("static const struct PolarGrid %s = { %s };" % (
        G, ", ".join(".%s = %s__%s" % (m, G, m) for m in POLARGRID_METHODS)))
    return "\n".join(out) + "\n"


def grid_setup_concrete(G, nr, ntheta, nsc, antipodal=False):
    """Harness text: give instance G a concrete shape; radii/angles/spacings are symbolic reals with the
    class invariant of PolarGrid (strictly increasing radii from R0 > 0, positive spacings equal to the
    coordinate differences)."""
    lsr = nr - nsc
    pow2 = 1 if (ntheta & (ntheta - 1)) == 0 else 0
    t = []
    t.append("  %s__nr_ = %d; %s__ntheta_ = %d; %s__is_ntheta_PowerOfTwo_ = %d;" % (G, nr, G, ntheta, G, pow2))
    t.append("  %s__number_smoother_circles_ = %d; %s__length_smoother_radial_ = %d;" % (G, nsc, G, lsr))
    t.append("  %s__number_circular_smoother_nodes_ = %d; %s__number_radial_smoother_nodes_ = %d;" % (
        G, nsc * ntheta, G, lsr * ntheta))
    t.append("  %s__radii_[0] = nondet_real(); __CPROVER_assume(%s__radii_[0] > 0);" % (G, G))
    for i in range(nr - 1):
        t.append("  %s__radial_spacings_[%d] = nondet_real(); __CPROVER_assume(%s__radial_spacings_[%d] > 0);" % (G, i, G, i))
        t.append("  %s__radii_[%d] = %s__radii_[%d] + %s__radial_spacings_[%d];" % (G, i + 1, G, i, G, i))
    t.append("  %s__angles_[0] = 0;" % G)
    for j in range(ntheta):
        if antipodal and ntheta % 2 == 0 and j >= ntheta // 2:
            # PolarGrid::checkParameters: every angle has its opposite (theta + pi) in the grid
            t.append("  %s__angular_spacings_[%d] = %s__angular_spacings_[%d];" % (G, j, G, j - ntheta // 2))
        else:
            t.append("  %s__angular_spacings_[%d] = nondet_real(); __CPROVER_assume(%s__angular_spacings_[%d] > 0);" % (G, j, G, j))
        t.append("  %s__angles_[%d] = %s__angles_[%d] + %s__angular_spacings_[%d];" % (G, j + 1, G, j, G, j))
    return "\n".join(t) + "\n"


VEC_TYPE = re.compile(r"(Vector\s*<|std::vector\s*<)")


def classify_params(f, enum_types=()):
    """-> list of (kind, ctype, name); kind in vec | obj | out | val"""
    res = []
    for (ty, name) in f["params"]:
        t = ty.replace("const", "").strip()
        if t in enum_types:
            res.append(("val", t, name))
        elif VEC_TYPE.search(ty):
            res.append(("vec", None, name))
        elif re.match(r"^(double|int|bool)\s*&$", t) and "const" not in ty:
            res.append(("out", t[:-1].strip(), name))
        elif re.match(r"^(double|int|bool|size_t)\s*&?$", t):
            res.append(("val", t.rstrip("&").strip(), name))
        elif re.match(r"^[A-Z]\w*(<\w+>)?\s*&?$", t):
            base = t.rstrip("&").strip()
            res.append(("obj", base, name))
        elif re.match(r"^T\s*\*$", t) or re.match(r"^double\s*\*$", t):
            res.append(("vec", None, name))
        else:
            raise ExtractError("unclassified parameter `%s %s` of %s" % (ty, name, f["name"]))
    return res


CTYPE = {"double": "real_t", "int": "int", "bool": "_Bool", "size_t": "size_t"}


def emit_function_globals(cname, f, rules, layer, callname=None, enum_types=()):
    """Layer R emission (R3): vector and object reference parameters are dropped from the signature and
    denote file-scope objects OF THE SAME NAME (the harness declares them); value parameters stay.
    A wrapper macro with the original arity keeps every call site in extracted text verbatim and checks
    nothing at run time; the extractor checks that call sites pass identically named vectors."""
    if re.search(r"\breturn\b[^;]*[^;\s]", f["body"]) and f["ret"].split()[-1:] == ["void"]:
        pass
    kinds = classify_params(f, enum_types)
    body = common_body_rewrites(f["body"], rules, layer)
    keep = [(k, t, n) for (k, t, n) in kinds if k == "val"]
    outs = [n for (k, t, n) in kinds if k == "out"]
    if outs:
        raise ExtractError("%s has out-parameters; emit it as a macro" % f["name"])
    def cty(t):
        return CTYPE.get(t, "int" if t in enum_types else t)
    sig = ", ".join("const %s %s" % (cty(t), n) for (k, t, n) in keep) or "void"
    ret = f["ret"].replace("inline", "").replace("static", "").replace("const", "").replace("&", "").strip() or "void"
    ret = re.sub(r"template\s*<[^>]*>", "", ret).strip()
    ret = CTYPE.get(ret, ret)
    allnames = [n for (_, _, n) in kinds]
    impl = cname + "__impl"
    wrapper = "#define %s(%s) %s(%s)" % (callname or cname, ", ".join(allnames), impl,
                                         ", ".join(n for (_, _, n) in keep))
    text = "static %s %s(%s)\n{%s}\n" % (ret, impl, sig, body)
    return dict(text=text, wrapper=wrapper, kinds=kinds, impl=impl, name=callname or cname)


def check_call_sites(text, callee, kinds, ignore=()):
    """every call `callee(args)` in text passes, at each vec/obj position, an identifier equal to the
    callee's parameter name (so that dropping the argument is meaning-preserving)."""
    n = 0
    for m in re.finditer(r"(?<![\w.])" + re.escape(callee) + r"\s*\(", text):
        from vlib import match_close, split_top
        po = m.end() - 1
        pc = match_close(text, po, "(", ")")
        args = split_top(text[po + 1:pc])
        if len(args) != len(kinds):
            raise ExtractError("call of %s with %d args, expected %d" % (callee, len(args), len(kinds)))
        for a, (k, t, name) in zip(args, kinds):
            if k in ("vec", "obj") and name in ignore:
                continue          # scratch storage that is only handed to a callee replaced by its contract
            if k in ("vec", "obj") and a.strip() != name:
                raise ExtractError("call of %s passes `%s` for reference parameter `%s`" % (callee, a, name))
        n += 1
    return n


# --------------------------------------------------------------------------------------
# LevelCache instance (R10 class instantiation) and geometry / profile providers
# --------------------------------------------------------------------------------------
LC_VECS = {"sin_theta_": "t", "cos_theta_": "t", "coeff_alpha_": "r", "coeff_beta_": "r",
           "arr_": "n", "att_": "n", "art_": "n", "detDF_": "n"}
LC_ACCESSORS = {"sin_theta": "sin_theta_", "cos_theta": "cos_theta_", "coeff_alpha": "coeff_alpha_",
                "coeff_beta": "coeff_beta_", "arr": "arr_", "att": "att_", "art": "art_", "detDF": "detDF_",
                "cacheDensityProfileCoefficients": "cache_density_profile_coefficients_",
                "cacheDomainGeometry": "cache_domain_geometry_",
                "densityProfileCoefficients": "density_profile_coefficients_", "domainGeometry": "domain_geometry_"}
LC_SCALARS = ["cache_density_profile_coefficients_", "cache_domain_geometry_"]
LC_OBJS = ["domain_geometry_", "density_profile_coefficients_"]

PROVIDERS = r"""
/* ---- geometry and coefficient providers: uninterpreted functions (only functional consistency is used) ---- */
real_t __CPROVER_uninterpreted_alpha(real_t);   real_t __CPROVER_uninterpreted_beta(real_t);
real_t __CPROVER_uninterpreted_dFx_dr(real_t, real_t, real_t, real_t);
real_t __CPROVER_uninterpreted_dFy_dr(real_t, real_t, real_t, real_t);
real_t __CPROVER_uninterpreted_dFx_dt(real_t, real_t, real_t, real_t);
real_t __CPROVER_uninterpreted_dFy_dt(real_t, real_t, real_t, real_t);
real_t __CPROVER_uninterpreted_sin(real_t);     real_t __CPROVER_uninterpreted_cos(real_t);
static real_t prov_alpha(const real_t r) { return __CPROVER_uninterpreted_alpha(r); }
static real_t prov_beta(const real_t r) { return __CPROVER_uninterpreted_beta(r); }
static real_t prov_dFx_dr(const real_t r, const real_t t, const real_t s, const real_t c) { return __CPROVER_uninterpreted_dFx_dr(r, t, s, c); }
static real_t prov_dFy_dr(const real_t r, const real_t t, const real_t s, const real_t c) { return __CPROVER_uninterpreted_dFy_dr(r, t, s, c); }
static real_t prov_dFx_dt(const real_t r, const real_t t, const real_t s, const real_t c) { return __CPROVER_uninterpreted_dFx_dt(r, t, s, c); }
static real_t prov_dFy_dt(const real_t r, const real_t t, const real_t s, const real_t c) { return __CPROVER_uninterpreted_dFy_dt(r, t, s, c); }
#define sin(a) __CPROVER_uninterpreted_sin(a)
#define cos(a) __CPROVER_uninterpreted_cos(a)
struct DomainGeometry { real_t (*dFx_dr)(const real_t, const real_t, const real_t, const real_t);
                        real_t (*dFy_dr)(const real_t, const real_t, const real_t, const real_t);
                        real_t (*dFx_dt)(const real_t, const real_t, const real_t, const real_t);
                        real_t (*dFy_dt)(const real_t, const real_t, const real_t, const real_t); };
struct DensityProfileCoefficients { real_t (*alpha)(const real_t); real_t (*beta)(const real_t); };
#define DOMAIN_GEOMETRY_INIT { .dFx_dr = prov_dFx_dr, .dFy_dr = prov_dFy_dr, .dFx_dt = prov_dFx_dt, .dFy_dt = prov_dFy_dt }
#define DENSITY_PROFILE_INIT { .alpha = prov_alpha, .beta = prov_beta }
"""


def wrap_subscripts(text, names, fmt):
    """R12: NAME[expr] -> NAME[fmt(NAME, expr)] for every NAME in names (bracket matched)."""
    from vlib import match_close
    pat = re.compile(r"\b(" + "|".join(map(re.escape, names)) + r")\s*\[")
    out, pos, n = [], 0, 0
    while True:
        m = pat.search(text, pos)
        if not m:
            out.append(text[pos:])
            break
        bo = m.end() - 1
        bc = match_close(text, bo, "[", "]")
        inner = wrap_subscripts(text[bo + 1:bc], names, fmt)[0]
        out.append(text[pos:m.start()])
        out.append("%s[%s]" % (m.group(1), fmt % (m.group(1), inner)))
        pos = bc + 1
        n += 1
    return "".join(out), n


def jacobian_macro(rules, layer, hashes):
    src = Src.get("include/common/geometry_helper.h")
    f = src.function("compute_jacobian_elements",
                     must_params=["domain_geometry", "r", "theta", "sin_theta", "cos_theta", "coeff_alpha",
                                  "arr", "att", "art", "detDF"])
    hashes["compute_jacobian_elements"] = sha(f["body"])
    body = common_body_rewrites(f["body"], rules, layer)
    return fn_to_macro("compute_jacobian_elements", [p[1] for p in f["params"]], body)


def levelcache_instance(O, layer, rules, maxn, maxr, maxt, hashes):
    """globals O__<member> for every data member of LevelCache + obtainValues as macro O__obtainValues +
    the accessors (checked to be `return <member>;`)."""
    hdr = Src.get("include/Level/level.h")
    cpp = Src.get("src/Level/levelCache.cpp")
    for acc, mem in LC_ACCESSORS.items():
        f = cpp.function("LevelCache::" + acc)
        if "".join(f["body"].split()) != "return%s;" % mem:
            raise ExtractError("LevelCache::%s is no longer `return %s;`" % (acc, mem))
    for mem in list(LC_VECS) + LC_SCALARS + LC_OBJS:
        if not re.search(r"\b%s\s*;" % re.escape(mem), hdr.text):
            raise ExtractError("LevelCache member %s not found in level.h" % mem)
    dim = {"t": maxt, "r": maxr, "n": maxn}
    out = ["/* ---- LevelCache instance %s ---- */" % O]
    for v, k in LC_VECS.items():
        out.append("static real_t %s__%s[%d]; static int %s__%s_size;" % (O, v, dim[k], O, v))
    out.append("static _Bool %s__cache_density_profile_coefficients_, %s__cache_domain_geometry_;" % (O, O))
    out.append("static const struct DomainGeometry %s__domain_geometry_ = DOMAIN_GEOMETRY_INIT;" % O)
    out.append("static const struct DensityProfileCoefficients %s__density_profile_coefficients_ = DENSITY_PROFILE_INIT;" % O)
    out.append("#define %s__cacheDensityProfileCoefficients() %s__cache_density_profile_coefficients_" % (O, O))
    out.append("#define %s__cacheDomainGeometry() %s__cache_domain_geometry_" % (O, O))
    f = hdr.function("obtainValues", must_params=["i_r", "i_theta", "global_index", "r", "theta", "sin_theta",
                                                  "cos_theta", "coeff_beta", "arr", "att", "art", "detDF"])
    hashes["LevelCache::obtainValues"] = sha(f["body"])
    body = common_body_rewrites(f["body"], rules, layer)
    members = list(LC_VECS) + LC_SCALARS + LC_OBJS
    body, n = wrap_subscripts(body, list(LC_VECS), "VCHK(%s, %s)")
    rules.log.append(("R12.sized_subscript", n))
    body = re.sub(r"\b(" + "|".join(map(re.escape, members)) + r")\b", lambda m: O + "__" + m.group(1), body)
    out.append(fn_to_macro(O + "__obtainValues", [p[1] for p in f["params"]], body))
    return "\n".join(out) + "\n"


VCHK = r"""
/* R12: a subscript of a sized vector carries the size assertion of Vector<T>::operator[] / std::vector's contract */
#define VCHK(a, i) (__CPROVER_assert((i) >= 0 && (i) < a##_size, "vector subscript within size: " #a), (i))
#define VSIZE_SET(a, e) (a##_size = (e))
"""


def alias_defs(body, rules, obj, table, fname):
    """R2 for `const auto& NAME = obj.ACC();`: the line is removed; NAME is #define'd to the member global
    for the extent of the function (an alias has no storage in either language)."""
    defs = []

    def rep(m):
        name, acc = m.group(1), m.group(2)
        if acc not in table:
            raise ExtractError("%s: alias of unknown accessor %s" % (fname, acc))
        defs.append((name, "%s__%s" % (obj, table[acc])))
        return ""

    body = re.sub(r"const\s+auto\s*&\s*(\w+)\s*=\s*%s\.(\w+)\(\)\s*;" % re.escape(obj), rep, body)
    rules.log.append(("R2.alias(%s)" % fname, len(defs)))
    return body, defs


def emit_class_methods(cls, methods, rules, layer, hashes, lc="level_cache_", pre_rewrite=None, vec_names=(),
                       enum_types=(), extra_vecs=()):
    """methods: list of (relpath, method) in callee-first order.  Emits every method as a C function
    `<cls>_<method>__impl(value params)` (R1, R3); within the class block the unqualified method name is a
    wrapper macro of the original arity so call sites stay verbatim."""
    out = ["/* ======== class %s ======== */" % cls]
    emitted = []
    for rel, m in methods:
        f = Src.get(rel).function("%s::%s" % (cls, m))
        hashes["%s::%s" % (cls, m)] = sha(f["body"])
        body = f["body"]
        if pre_rewrite:
            body = pre_rewrite(m, body, rules)
        body, adefs = alias_defs(body, rules, lc, LC_ACCESSORS, "%s::%s" % (cls, m))
        if re.search(r"\bauto\b", body):
            raise ExtractError("%s::%s: unhandled `auto` declaration" % (cls, m))
        body = rules.sub("R10.obtainValues", re.escape(lc) + r"\.obtainValues\(", lc + "__obtainValues(", body)
        body = rules.sub("R10.lc_accessor", re.escape(lc) + r"\.(cacheDensityProfileCoefficients|cacheDomainGeometry)\(\)",
                         lc + r"__\1()", body)
        if vec_names:
            vn = "|".join(map(re.escape, vec_names))
            body = rules.sub("R3.vector_assign", r"(?m)^(\s*)(%s)\s*=\s*(%s)\s*;" % (vn, vn),
                             r"\1VEC_COPY(\2, \3);", body)
        body = rules.sub("R9.omp_get_max_threads", r"\bomp_get_max_threads\(\)", "verif_omp_max_threads", body)
        for e in emitted:
            check_call_sites(body, e["name"], e["kinds"], ignore=extra_vecs)
        f["body"] = body
        e = emit_function_globals("%s_%s" % (cls, m), f, rules, layer, callname=m, enum_types=enum_types)
        for (a, t) in adefs:
            out.append("#define %s %s" % (a, t))
        out.append(e["text"])
        for (a, t) in adefs:
            out.append("#undef %s" % a)
        out.append(e["wrapper"])
        emitted.append(e)
    for e in emitted:
        out.append("#undef %s" % e["name"])
    return "\n".join(out) + "\n", emitted


OPERATOR_PRELUDE = r"""
#define omp_set_num_threads(n) ((void)0)      /* dropped: thread-count call */
static int verif_omp_max_threads;             /* omp_get_max_threads(): chosen by the harness (1 = sequential branch) */
static int num_omp_threads_;
static _Bool DirBC_Interior_;
#define VEC_COPY(dst, src) do { for (int vc_i = 0; vc_i < dst##_size; vc_i++) dst[vc_i] = src[vc_i]; } while (0)
"""


def parse_init_list(init):
    """`a_(e1), b_(e2)` -> [(a_, e1), (b_, e2)]"""
    from vlib import split_top
    res = []
    for item in split_top(init, angle=False):
        m = re.match(r"^(\w+)\s*[\(\{](.*)[\)\}]\s*$", item.strip(), re.S)
        if not m:
            raise ExtractError("cannot parse member initialiser: " + item)
        res.append((m.group(1), m.group(2).strip()))
    return res


def levelcache_ctor(O, which, rules, layer, hashes, grid_obj, prev=None, prev_grid=None):
    """Emit LevelCache constructor `which` (0: from grid+providers, 1: from the previous level) for instance O.
    R11: member initialisers become assignments (`vec_(n)` -> size := n ; scalar_(e) -> scalar := e ; reference
    members bind the const provider objects and are dropped)."""
    src = Src.get("src/Level/levelCache.cpp")
    f = src.function("LevelCache::LevelCache", occurrence=which)
    hashes["LevelCache::LevelCache#%d" % which] = sha(f["init"] + f["body"])
    members = list(LC_VECS) + LC_SCALARS + LC_OBJS
    pre = []
    body = f["body"]
    init = f["init"]
    if which == 1:
        if [p[1] for p in f["params"]] != ["previous_level", "current_grid"]:
            raise ExtractError("LevelCache(previous_level, current_grid) signature changed")
        body = rules.sub("R2.alias.previous_level_cache",
                         r"const\s+auto\s*&\s*previous_level_cache\s*=\s*previous_level\.levelCache\(\)\s*;", "", body, expect=1)
        acc = "|".join(LC_ACCESSORS)

        def accrep(m):
            return "%s__%s" % (prev, LC_ACCESSORS[m.group(1)])
        both = []
        for t in (init, body):
            t = re.sub(r"previous_level\.levelCache\(\)\.(%s)\(\)" % acc, accrep, t)
            t = re.sub(r"previous_level_cache\.(%s)\(\)" % acc, accrep, t)
            t = re.sub(r"previous_level\.grid\(\)", prev_grid, t)
            both.append(t)
        init, body = both
        if "previous_level" in init + body:
            raise ExtractError("unrewritten use of previous_level in LevelCache ctor 2")
        pre.append("#define current_grid %s" % grid_obj)
        sig = "void"
    else:
        names = [p[1] for p in f["params"]]
        if names != ["grid", "density_profile_coefficients", "domain_geometry", "cache_density_profile_coefficients",
                     "cache_domain_geometry"]:
            raise ExtractError("LevelCache ctor 1 signature changed")
        pre.append("#define grid %s" % grid_obj)
        pre.append("#define density_profile_coefficients %s__density_profile_coefficients_" % O)
        pre.append("#define domain_geometry %s__domain_geometry_" % O)
        sig = "const _Bool cache_density_profile_coefficients, const _Bool cache_domain_geometry"
    body = rules.sub("R13.double_index", r"const\s+double\s+(index)\s*=", r"const int \1 =", body)
    assigns = []
    for name, expr in parse_init_list(init):
        if name in LC_OBJS:
            continue
        if name in LC_VECS:
            assigns.append("    VSIZE_SET(%s, %s);" % (name, expr))
        elif name in LC_SCALARS:
            assigns.append("    %s = %s;" % (name, expr))
        else:
            raise ExtractError("LevelCache ctor initialises unknown member " + name)
    missing = [m for m in list(LC_VECS) + LC_SCALARS
               if not any(re.search(r"\b%s\b" % re.escape(m), a.split("=")[0].split(",")[0]) for a in assigns)]
    if missing:
        raise ExtractError("LevelCache ctor does not initialise " + ",".join(missing))
    text = "\n".join(assigns) + "\n" + body
    text = common_body_rewrites(text, rules, layer)
    text, n = wrap_subscripts(text, list(LC_VECS) + ([prev + "__" + v for v in LC_VECS] if prev else []), "VCHK(%s, %s)")
    rules.log.append(("R12.sized_subscript", n))
    text = re.sub(r"(?<![\w])(" + "|".join(map(re.escape, members)) + r")\b", lambda m: O + "__" + m.group(1), text)
    text = text.replace("VCHK(%s__" % O, "VCHK(%s__" % O)
    name = "%s__construct%d" % (O, which)
    out = pre + ["static void %s(%s)\n{\n%s}\n" % (name, sig, text)]
    out += ["#undef " + p.split()[1] for p in pre]
    return "\n".join(out) + "\n", name
