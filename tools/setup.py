#!/usr/bin/env python3
"""setup: nothing is cached from /repo; only make the z3 5.1 shim and check the tools exist."""
import os, shutil, sys
sys.path.insert(0, os.path.dirname(os.path.abspath(__file__)))
import vlib
vlib.tool_env()
missing = [t for t in ("cbmc", "goto-cc", "goto-instrument", "z3-new", "z3") if not shutil.which(t)]
if missing:
    print("missing tools:", missing)
    sys.exit(1)
print("setup ok")
