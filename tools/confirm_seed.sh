#!/bin/bash
# usage: confirm_seed.sh <ID> [<name>]  -- confirm a sub-agent's seeded change in its scratch worktree /tmp/wt/<ID>:
#   with the change: builds, the 16 ctest binaries pass, the demo FAILS; without it: the demo PASSES.
# On success copy patch.diff, demo and meta.json to /verif/seeded/<name>/ and append what was run to meta.json.
ID=$1; NAME=${2:-$1}; W=/tmp/wt/$ID
set -u
cd $W || exit 2
export OMP_WAIT_POLICY=passive
log=$W/seed/confirm.log; : > $log
git -C $W diff -- src include > $W/seed/patch.check.diff
cmp -s $W/seed/patch.check.diff $W/seed/patch.diff || { echo "NOTE: worktree diff differs from seed/patch.diff (using worktree diff)" | tee -a $log; cp $W/seed/patch.check.diff $W/seed/patch.diff; }
[ -s $W/seed/patch.diff ] || { echo "empty patch"; exit 2; }
echo "== with change: build + tests" | tee -a $log
cmake --build $W/_build -j16 2>&1 | tail -2 | tee -a $log
ctest --test-dir $W/_build -j8 --timeout 900 2>&1 | tail -3 | tee -a $log
ctest --test-dir $W/_build -j8 --timeout 900 2>&1 | grep -q "100% tests passed" || { echo "TESTS FAIL WITH CHANGE"; exit 1; }
echo "== with change: demo (must fail)" | tee -a $log
bash $W/seed/run_demo.sh $W > $W/seed/demo_with.log 2>&1; rc_with=$?
tail -3 $W/seed/demo_with.log | tee -a $log; echo "rc=$rc_with" | tee -a $log
git -C $W apply -R $W/seed/patch.diff || { echo "cannot reverse patch"; exit 2; }
echo "== without change: build + demo (must pass)" | tee -a $log
cmake --build $W/_build -j16 2>&1 | tail -1 | tee -a $log
bash $W/seed/run_demo.sh $W > $W/seed/demo_without.log 2>&1; rc_without=$?
tail -3 $W/seed/demo_without.log | tee -a $log; echo "rc=$rc_without" | tee -a $log
git -C $W apply $W/seed/patch.diff
if [ $rc_with -ne 0 ] && [ $rc_without -eq 0 ]; then
  D=/verif/seeded/$NAME; mkdir -p $D
  cp $W/seed/patch.diff $D/; cp $W/seed/run_demo.sh $D/; cp $W/seed/*.cpp $D/ 2>/dev/null; cp $W/seed/*.h $D/ 2>/dev/null
  python3 - "$W/seed/meta.json" "$D/meta.json" "$ID" <<'PY'
import json,sys
src,dst,pid=sys.argv[1:4]
try: m=json.load(open(src))
except Exception as e: m={"property":pid,"summary":"(meta.json of the sub-agent was not valid JSON)"}
m["property"]=pid
m["confirmed_by_main_session"]={"ran":["cmake --build <worktree>/_build (with change)","ctest --test-dir <worktree>/_build -j8: 100% tests passed (16 binaries)","run_demo.sh <worktree>: non-zero exit with change","git apply -R patch.diff; rebuild; run_demo.sh: exit 0 without change"],"result":"confirmed"}
json.dump(m,open(dst,"w"),indent=1)
PY
  echo "CONFIRMED $NAME"
else
  echo "NOT CONFIRMED (with=$rc_with without=$rc_without)"; exit 1
fi
