#!/usr/bin/env python3
"""Layer T (DESIGN 2.3): extraction of the multigrid driver functions to handle/token C and their contracts."""
import re
from vlib import Src, Rules, ExtractError, sha, match_close, VERIF
import os

CYCLE_FILES = {
    "multigrid_V_Cycle": "src/GMGPolar/MultigridMethods/multigrid_V_Cycle.cpp",
    "multigrid_W_Cycle": "src/GMGPolar/MultigridMethods/multigrid_W_Cycle.cpp",
    "multigrid_F_Cycle": "src/GMGPolar/MultigridMethods/multigrid_F_Cycle.cpp",
    "implicitlyExtrapolatedMultigrid_V_Cycle": "src/GMGPolar/MultigridMethods/implicitly_extrapolated_multigrid_V_Cycle.cpp",
    "implicitlyExtrapolatedMultigrid_W_Cycle": "src/GMGPolar/MultigridMethods/implicitly_extrapolated_multigrid_W_Cycle.cpp",
    "implicitlyExtrapolatedMultigrid_F_Cycle": "src/GMGPolar/MultigridMethods/implicitly_extrapolated_multigrid_F_Cycle.cpp",
}
LEVEL_OPS = "smoothing|extrapolatedSmoothing|computeResidual|directSolveInPlace"
VEC_ACC = {"rhs": "V_RHS", "solution": "V_SOLUTION", "residual": "V_RESIDUAL", "error_correction": "V_ERROR_CORRECTION"}

TIMING_START = re.compile(r"^[ \t]*auto\s+(start|end)_\w+\s*=\s*std::chrono::high_resolution_clock::now\(\)\s*;[ \t]*$", re.M)
TIMING_ACC = re.compile(r"^[ \t]*t_\w+\s*(\+=|-=)\s*(std::chrono::duration<double>\(\s*end_\w+\s*-\s*start_\w+\s*\)\.count\(\)|t_\w+)\s*;[ \t]*$", re.M | re.S)
TIMING_ACC2 = re.compile(r"[ \t]*t_\w+\s*\+=\s*std::chrono::duration<double>\(\s*end_\w+\s*-\s*start_\w+\s*\)\s*\.count\(\)\s*;", re.S)


def drop_timing(body, rules):
    """T1: timing statements assign only start_*/end_*/t_* variables which no kept statement reads."""
    body, n1 = TIMING_START.subn("", body)
    body, n2 = TIMING_ACC2.subn("", body)
    body, n3 = TIMING_ACC.subn("", body)
    rules.log.append(("T1.timing_dropped", n1 + n2 + n3))
    left = re.findall(r"\b(start_(?!level_depth)\w+|end_\w+)\b", body)
    left = [x for x in left if not x.startswith("start_level")]
    if left:
        raise ExtractError("timing variables still referenced after T1: %s" % sorted(set(left))[:5])
    return body


def level_bindings(body, rules, fname):
    """T2: `Level& NAME = levels_[EXPR];` -> removed, binding NAME -> EXPR recorded."""
    binds = {}

    def rep(m):
        binds[m.group(1)] = m.group(2).strip()
        return ""

    body = re.sub(r"Level\s*&\s*(\w+)\s*=\s*levels_\[([^\]]+)\]\s*;", rep, body)
    rules.log.append(("T2.level_alias(%s)" % fname, len(binds)))
    return body, binds


def apply_level_rewrites(body, binds, rules):
    if not binds:
        return body
    names = "|".join(map(re.escape, binds))
    body = rules.sub("T3.level_op", r"\b(%s)\.(%s)\(" % (names, LEVEL_OPS),
                     lambda m: "Level_%s(%s, " % (m.group(2), binds[m.group(1)]), body)
    body = rules.sub("T4.level_vec", r"\b(%s)\.(rhs|solution|residual|error_correction)\(\)" % names,
                     lambda m: "HV(%s, %s)" % (binds[m.group(1)], VEC_ACC[m.group(2)]), body)
    left = re.findall(r"\b(%s)\s*\." % names, body)
    if left:
        raise ExtractError("unrewritten use of level alias: %s" % left[:3])
    return body


def enclosing_block_end(text, pos):
    """index of the `}` closing the innermost block that contains pos (or len(text) at top level)"""
    depth = 0
    for i in range(pos, len(text)):
        c = text[i]
        if c == "{":
            depth += 1
        elif c == "}":
            if depth == 0:
                return i
            depth -= 1
    return len(text)


def resolve_level_aliases(body, rules, fname):
    """T2-T4, scope aware: `Level& X = levels_[E];` binds X to level E until the end of the enclosing block
    (an inner declaration may shadow an outer one).  Uses of X are rewritten, the declaration is removed."""
    pat = re.compile(r"Level\s*&\s*(\w+)\s*=\s*levels_\[([^\]]+)\]\s*;")
    binds = []
    while True:
        ms = list(pat.finditer(body))
        if not ms:
            break
        m = ms[-1]
        name, expr = m.group(1), m.group(2).strip()
        end = enclosing_block_end(body, m.end())
        seg = body[m.end():end]
        seg = re.sub(r"\b%s\.grid\(\)\.numberOfNodes\(\)" % name, "grid_numberOfNodes(%s)" % expr, seg)
        seg = re.sub(r"computeExactError\(\s*%s\s*," % name, "computeExactError(%s," % expr, seg)
        seg = re.sub(r"(?m)^(\s*)%s\.(\w+)\(\)\s*=\s*%s\.(\w+)\(\)\s*;" % (name, name),
                     lambda q: "%svec_copy(HV(%s, %s), HV(%s, %s));" % (q.group(1), expr, VEC_ACC[q.group(2)], expr, VEC_ACC[q.group(3)]), seg)
        seg = re.sub(r"std::swap\(\s*%s\.(\w+)\(\)\s*,\s*%s\.(\w+)\(\)\s*\)" % (name, name),
                     lambda q: "vec_swap(HV(%s, %s), HV(%s, %s))" % (expr, VEC_ACC[q.group(1)], expr, VEC_ACC[q.group(2)]), seg)
        seg = re.sub(r"\b%s\.(%s)\(" % (name, LEVEL_OPS), lambda q: "Level_%s(%s, " % (q.group(1), expr), seg)
        seg = re.sub(r"\b%s\.(rhs|solution|residual|error_correction)\(\)" % name,
                     lambda q: "HV(%s, %s)" % (expr, VEC_ACC[q.group(1)]), seg)
        if re.search(r"\b%s\s*\." % name, seg):
            raise ExtractError("%s: unrewritten use of level alias %s: %s" % (fname, name, re.findall(r".*\b%s\s*\..*" % name, seg)[:2]))
        body = body[:m.start()] + seg + body[end:]
        binds.append((name, expr))
    rules.log.append(("T2.level_alias(%s)" % fname, len(binds)))
    return body, binds


def drop_dead_block(body, rules, var):
    """T10: `bool VAR = false; if (VAR) { ... }` with no other assignment to VAR: the block is dead code"""
    m = re.search(r"\bbool\s+%s\s*=\s*false\s*;" % var, body)
    if not m:
        return body
    if len(re.findall(r"\b%s\s*=(?!=)" % var, body)) != 1:
        raise ExtractError("T10: %s is assigned elsewhere" % var)
    m2 = re.search(r"if\s*\(\s*%s\s*\)\s*\{" % var, body)
    if not m2:
        raise ExtractError("T10: no `if (%s)` block" % var)
    bo = m2.end() - 1
    bc = match_close(body, bo, "{", "}")
    body = body[:m.start()] + body[m.end():m2.start()] + body[bc + 1:]
    rules.log.append(("T10.dead_block(%s)" % var, 1))
    return body


def splice_loop_contracts(body, loop_contracts, fname):
    """insert the keyed loop contract after the header of the n-th `for`/`while` loop of the body; an entry may be
    a pair (contract, ghost) whose ghost statements are placed at the start of the loop body."""
    out, pos, k = [], 0, 0
    for m in re.finditer(r"\b(for|while)\s*\(", body):
        if m.start() < pos:
            continue
        po = m.end() - 1
        pc = match_close(body, po, "(", ")")
        if k >= len(loop_contracts):
            raise ExtractError("%s: loop #%d has no contract (source has more loops than the sidecar)" % (fname, k))
        lc = loop_contracts[k]
        contract, ghost = (lc, "") if isinstance(lc, str) else lc
        out.append(body[pos:pc + 1])
        out.append("\n" + contract + "\n")
        pos = pc + 1
        if ghost:
            mb = re.match(r"\s*\{", body[pos:])
            if not mb:
                raise ExtractError("%s: loop #%d body is not a block" % (fname, k))
            out.append(body[pos:pos + mb.end()] + "\n" + ghost + "\n")
            pos += mb.end()
        k += 1
    out.append(body[pos:])
    if k != len(loop_contracts):
        raise ExtractError("%s: %d loops in source, %d loop contracts in sidecar" % (fname, k, len(loop_contracts)))
    return "".join(out)


def common_T(body, rules):
    body = rules.sub("R4.enum", r"\b([A-Z]\w*)::([A-Za-z_]\w*)\b(?!\s*\()", r"\1_\2", body)
    body = rules.sub("R6.digitsep", r"(?<=\d)'(?=\d)", "", body)
    body = rules.sub("R8.throw", r"\bthrow\s+std::(\w+)\s*\(([^;]*)\)\s*;", r'VERIF_THROW("\1");', body)
    body = rules.sub("T1.cout", r"^[ \t]*std::(cout|cerr)\b[^;]*;[ \t]*$", "", body, flags=re.M)
    body = rules.sub("T1.likwid", r"^[ \t]*LIKWID_\w+\([^;]*\)\s*;[ \t]*$", "", body, flags=re.M)
    body = rules.sub("R7.bool", r"\bbool\b", "_Bool", body)
    body = rules.sub("R7.true", r"\btrue\b", "1", body)
    body = rules.sub("R7.false", r"\bfalse\b", "0", body)
    return body


def extract_cycle(name, rules, hashes, contract, prologue, loop_contracts):
    f = Src.get(CYCLE_FILES[name]).function("GMGPolar::" + name,
                                            must_params=["level_depth", "solution", "rhs", "residual"])
    hashes["GMGPolar::" + name] = sha(f["body"])
    for (ty, pn) in f["params"][1:]:
        if "Vector<double>" not in ty or "&" not in ty:
            raise ExtractError("%s: parameter %s is no longer Vector<double>&" % (name, pn))
    body = drop_timing(f["body"], rules)
    body, binds = level_bindings(body, rules, name)
    if binds != {"level": "level_depth", "next_level": "level_depth + 1"}:
        raise ExtractError("%s: unexpected level aliases %s" % (name, binds))
    body = apply_level_rewrites(body, binds, rules)
    body = common_T(body, rules)
    body = splice_loop_contracts(body, loop_contracts, name)
    if re.search(r"\b(auto|std::)\b", body):
        raise ExtractError("%s: unhandled C++ construct left: %s" % (name, re.findall(r".*(?:auto|std::).*", body)[:2]))
    text = "void %s(const int level_depth, vec_t solution, vec_t rhs, vec_t residual)\n%s\n{\n%s\n%s}\n" % (
        name, contract, prologue, body)
    return text


def prelude(maxl=64):
    t = open(os.path.join(VERIF, "contracts", "layerT.h")).read()
    return "#define MAXL %d\n" % maxl + t


# --------------------------------------------------------------------------------------
# pipeline M: contracts written in CPROVER syntax, encoded by this generator
#   callee  : assert requires ; save olds ; havoc assigns ; assume ensures         (call replaced by contract)
#   enforced: assume requires ; save olds ; run real body ; assert ensures + frame  (function against its contract)
# goto-instrument --dfcc implements the same semantics but its instrumented programs made every refutation time
# out (DESIGN 2.6 / risk R-1); loop contracts are still applied by goto-instrument --apply-loop-contracts.
# --------------------------------------------------------------------------------------
from vlib import split_top


def _clauses(text, kw):
    res = []
    for m in re.finditer(r"__CPROVER_%s\s*\(" % kw, text):
        po = m.end() - 1
        pc = match_close(text, po, "(", ")")
        res.append(" ".join(text[po + 1:pc].split()))
    return res


def parse_contract(text):
    return dict(requires=_clauses(text, "requires"), ensures=_clauses(text, "ensures"),
                assigns=[a for cl in _clauses(text, "assigns") for a in split_top(cl, angle=False)])


def parse_contract_decls(header):
    """`void name(params)\n__CPROVER_... ;` declarations of a contracts header -> {name: (params, contract)}"""
    res = {}
    from vlib import strip_comments
    header = strip_comments(header)
    for m in re.finditer(r"^void\s+(\w+)\s*\(([^)]*)\)\s*((?:\s*__CPROVER_(?:requires|ensures|assigns)\s*\((?:[^;]|\n)*?\)\s*)+);",
                         header, re.M):
        params = [tuple(p.strip().rsplit(" ", 1)) for p in m.group(2).split(",") if p.strip() and p.strip() != "void"]
        res[m.group(1)] = (params, parse_contract(m.group(3)))
    return res


def _olds(exprs):
    """replace every __CPROVER_old(e) by a ghost constant; returns (new exprs, [(name, e)])"""
    olds, out = [], []
    for e in exprs:
        while True:
            m = re.search(r"__CPROVER_old\s*\(", e)
            if not m:
                break
            po = m.end() - 1
            pc = match_close(e, po, "(", ")")
            inner = e[po + 1:pc]
            found = [n for (n, x) in olds if x == inner]
            if found:
                name = found[0]
            else:
                name = "old_%d" % len(olds)
                olds.append((name, inner))
            e = e[:m.start()] + name + e[pc + 1:]
        out.append(e)
    return out, olds


def _frame_pred(assigns, idx):
    """predicate `tok[idx] may be assigned` and the list of scalar targets"""
    preds, scalars = [], []
    for a in assigns:
        a = a.strip()
        m = re.match(r"^tok\[(.*)\]$", a)
        if m:
            preds.append("(%s) == (%s)" % (idx, m.group(1)))
            continue
        m = re.match(r"^__CPROVER_object_upto\(\s*&tok\[(.*)\]\s*,\s*\((.*)\)\s*\*\s*sizeof\(tok_t\)\s*\)$", a)
        if m:
            preds.append("((%s) <= (%s) && (%s) < (%s) + (%s))" % (m.group(1), idx, idx, m.group(1), m.group(2)))
            continue
        if re.match(r"^\w+$", a):
            scalars.append(a)
            continue
        raise ExtractError("unsupported assigns target: " + a)
    return "(" + (" || ".join(preds) if preds else "0") + ")", scalars


SCALAR_TYPES = {"full_grid_smoothing_": "_Bool", "number_of_iterations_": "int", "g_rn_len": "int", "g_ee_len": "int",
                "mean_defined": "_Bool"}


def contract_stub(name, params, contract):
    ens, olds = _olds(contract["ensures"])
    ps = ", ".join("%s %s" % (t, n) for (t, n) in params) or "void"
    t = ["void %s(%s)\n{" % (name, ps)]
    for k, r in enumerate(contract["requires"]):
        t.append('    __CPROVER_assert(%s, "OBL:precondition of %s #%d: %s");' % (r, name, k, r.replace('"', "'")[:150]))
    for (n, e) in olds:
        t.append("    const tok_t %s = %s;" % (n, e))
    singles = [a.strip() for a in contract["assigns"] if re.match(r"^tok\[.*\]$", a.strip())]
    ranges = [a for a in contract["assigns"] if "__CPROVER_object_upto" in a]
    pred, scalars = _frame_pred(ranges + [a for a in contract["assigns"] if re.match(r"^\s*\w+\s*$", a)], "hv_i")
    if singles:
        t.append("    { " + " ".join("const int hs_%d = %s;" % (k, re.match(r"^tok\[(.*)\]$", a).group(1)) for k, a in enumerate(singles)))
        t.append("      " + " ".join("{ tok_t fresh_t; tok[hs_%d] = fresh_t; }" % k for k in range(len(singles))) + " }")
    if ranges:
        t.append("    { tok_t fresh[NV]; for (int hv_i = 0; hv_i < NV; hv_i++) if (%s) tok[hv_i] = fresh[hv_i]; }" % pred)
    for s in scalars:
        t.append("    { %s fresh_s; %s = fresh_s; }" % (SCALAR_TYPES.get(s, "int"), s))
    for e in ens:
        t.append("    __CPROVER_assume(%s);" % e)
    t.append("}")
    return "\n".join(t) + "\n"


def enforce_harness(name, params, contract, state_setup, extra_obl=()):
    ens, olds = _olds(contract["ensures"])
    t = ["void harness_%s(void)\n{" % name]
    t.append(state_setup)
    for (ty, n) in params:
        t.append("    %s %s;" % (ty.replace("const ", ""), n))
    for r in contract["requires"]:
        t.append("    __CPROVER_assume(%s);" % r)
    t.append("    int g_h; __CPROVER_assume(0 <= g_h && g_h < NV); const tok_t g_old_h = tok[g_h];   /* ghost index for the frame */")
    pred, scalars = _frame_pred(contract["assigns"], "g_h")
    all_scalars = [s for s in SCALAR_TYPES if s in state_setup]
    for s in all_scalars:
        if s not in scalars:
            t.append("    const %s g_old_%s = %s;" % (SCALAR_TYPES[s], s, s))
    for (n, e) in olds:
        t.append("    const tok_t %s = %s;" % (n, e))
    t.append("    %s__impl(%s);" % (name, ", ".join(n for (_, n) in params)))
    for k, e in enumerate(ens):
        t.append('    __CPROVER_assert(%s, "OBL:%s.ensures#%d");' % (e, name, k))
    t.append('    __CPROVER_assert(%s || tok[g_h] == g_old_h, "OBL:%s.frame(assigns)");' % (pred, name))
    for s in all_scalars:
        if s not in scalars:
            t.append('    __CPROVER_assert(%s == g_old_%s, "OBL:%s.frame(%s)");' % (s, s, name, s))
    for e in extra_obl:
        t.append("    " + e)
    t.append('    __CPROVER_assert(0, "COVER:%s.returned");' % name)
    t.append("}")
    return "\n".join(t) + "\n"


# --------------------------------------------------------------------------------------
# GMGPolar::solve / initializeSolution / converged
# --------------------------------------------------------------------------------------
def drop_verbose_blocks(body, rules):
    """`if (verbose_ > 0) { only std::cout statements }` -> removed"""
    n = 0
    while True:
        m = re.search(r"if\s*\(\s*verbose_\s*>\s*0\s*\)\s*\{", body)
        if not m:
            break
        bo = m.end() - 1
        bc = match_close(body, bo, "{", "}")
        inner = body[bo + 1:bc]
        stmts = [s.strip() for s in inner.split(";") if s.strip()]
        if not all(s.startswith("std::cout") for s in stmts):
            raise ExtractError("verbose block contains more than output statements: " + inner[:80])
        body = body[:m.start()] + body[bc + 1:]
        n += 1
    rules.log.append(("T1.verbose_block", n))
    return body


def drop_t_assignments(body, rules):
    body, n = re.subn(r"^[ \t]*t_\w+\s*(=|\+=|-=|/=)[^;]*;[ \t]*$", "", body, flags=re.M)
    rules.log.append(("T1.timing_assign", n))
    return body


def join_statements(body):
    """layout only: put every statement / condition header on one line"""
    lines = [l.rstrip() for l in body.split("\n")]
    out, cur = [], ""
    for l in lines:
        if not l.strip():
            if cur:
                cur += " "
                continue
            out.append("")
            continue
        cur = (cur + " " + l.strip()) if cur else l
        if cur.rstrip()[-1] in ";{}:":
            out.append(cur)
            cur = ""
    if cur:
        out.append(cur)
    return "\n".join(out)


def mark_uninit_locals(body, rules, names):
    """T9: definedness ghosts for locals declared without initialiser: every assignment sets the ghost bit, every
    other statement line that mentions the variable first asserts it."""
    lines = body.split("\n")
    out = []
    n_decl = n_read = 0
    declared = set()
    for ln in lines:
        m = re.match(r"^(\s*)double\s+([\w\s,]+);\s*$", ln)
        if m and all(v.strip() in names for v in m.group(2).split(",")):
            vs = [v.strip() for v in m.group(2).split(",")]
            out.append(ln)
            out.append(m.group(1) + " ".join("_Bool def_%s = 0;" % v for v in vs))
            declared.update(vs)
            n_decl += len(vs)
            continue
        used = [v for v in declared if re.search(r"\b%s\b" % v, ln)]
        pre, post = [], []
        for v in used:
            am = re.match(r"^\s*%s\s*=(?!=)(.*)$" % v, ln)
            if am:
                post.append("def_%s = 1;" % v)
                rhs_used = [w for w in declared if re.search(r"\b%s\b" % w, am.group(1))]
                for w in rhs_used:
                    pre.append('__CPROVER_assert(def_%s, "OBL:local %s is initialised when read");' % (w, w))
                    n_read += 1
            else:
                pre.append('__CPROVER_assert(def_%s, "OBL:local %s is initialised when read");' % (v, v))
                n_read += 1
        ind = re.match(r"^(\s*)", ln).group(1)
        stripped = ln.strip()
        if pre and (stripped.startswith("if") or stripped.startswith("else") or stripped.endswith(";") or True):
            out.append(ind + " ".join(dict.fromkeys(pre)))
        out.append(ln)
        if post:
            if not ln.rstrip().endswith(";"):
                raise ExtractError("T9: multi-line assignment to tracked local: " + ln)
            out.append(ind + " ".join(post))
    rules.log.append(("T9.uninit_local_decl", n_decl))
    rules.log.append(("T9.uninit_local_read_checks", n_read))
    # every candidate must be declared in the body, either with an initialiser (nothing to track) or without (tracked)
    for v in names:
        if v not in declared and not re.search(r"\bdouble\b[^;]*\b%s\s*=" % v, body):
            raise ExtractError("T9: local %s is no longer declared in the body" % v)
    return "\n".join(out), sorted(declared)


def extract_driver(name, rules, hashes, prologue, loop_contracts, uninit=()):
    f = Src.get("src/GMGPolar/solver.cpp").function("GMGPolar::" + name)
    hashes["GMGPolar::" + name] = sha(f["body"])
    body = f["body"]
    body = drop_verbose_blocks(body, rules)
    body = drop_timing(body, rules)
    body = drop_t_assignments(body, rules)
    body = drop_dead_block(body, rules, "use_boundary_condition")
    body, binds = resolve_level_aliases(body, rules, name)
    body = rules.sub("T5.optional_has", r"\b(\w+_)\.has_value\(\)", r"\1_has", body)
    body = rules.sub("T5.optional_val", r"\b(\w+_)\.value\(\)", r"\1_val", body)
    body = rules.sub("T6.pair_decl", r"std::pair<double,\s*double>\s+(\w+)\s*=", r"pair_t \1 =", body)
    body = rules.sub("T7.rn_push", r"\bresidual_norms_\.push_back\(", "RN_PUSH(", body)
    body = rules.sub("T7.ee_push", r"\bexact_errors_\.push_back\(", "EE_PUSH(", body)
    body = rules.sub("T7.rn_clear", r"\bresidual_norms_\.clear\(\)", "RN_CLEAR()", body)
    body = rules.sub("T7.ee_clear", r"\bexact_errors_\.clear\(\)", "EE_CLEAR()", body)
    body = rules.sub("T7.rn_read", r"\bresidual_norms_\[([^\]]+)\]", r"RN_READ(\1)", body)
    body = rules.sub("T8.nullptr", r"\bnullptr\b", "0", body)
    body = rules.sub("T1.writeToVTK", r"^[ \t]*writeToVTK\([^;]*\);[ \t]*$", "", body, flags=re.M)
    body = rules.sub("R7.std_math", r"\bstd::(pow|sqrt|floor)\b", r"v_\1", body)
    body = rules.sub("R7.math", r"(?<![\w.])(sqrt|pow)\s*\(", r"v_\1(", body)
    body = common_T(body, rules)
    # T11: quotients of scalars become the uninterpreted v_div (no integer division occurs in the driver bodies)
    OPER = r"(?:-?[A-Za-z_]\w*(?:\((?:[^()]|\((?:[^()]|\([^()]*\))*\))*\))?|-?\d+\.\d+)"
    n_div = 0
    while True:
        body, k = re.subn(r"(%s)\s*/\s*(%s)" % (OPER, OPER), r"v_div(\1, \2)", body, count=1)
        if not k:
            break
        n_div += 1
    rules.log.append(("T11.quotient", n_div))
    body = join_statements(body)
    tracked = []
    if uninit:
        body, tracked = mark_uninit_locals(body, rules, list(uninit))
    extract_driver.tracked = tracked
    body = splice_loop_contracts(body, loop_contracts, name)
    if re.search(r"\b(auto|std::)\b|::", body):
        raise ExtractError("%s: unhandled C++ construct left: %s" % (name, re.findall(r".*(?:auto|std::|::).*", body)[:3]))
    ret = "_Bool" if f["ret"].split()[-1] == "bool" else "void"
    ps = ", ".join("const double %s" % p[1] for p in f["params"]) or "void"
    return "%s %s__impl(%s)\n{\n%s\n%s}\n" % (ret, name, ps, prologue, body)
