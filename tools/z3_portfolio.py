#!/usr/bin/env python3
"""z3 front end used by cbmc's --z3 back end (placed first on PATH as `z3` by vlib.tool_env).

z3's run time on the nonlinear real queries of Layer R is heavy-tailed: the same query takes 1 s with one random seed and more
than 500 s with another.  This wrapper runs a staged portfolio of z3 5.1 instances that differ only in solver parameters (random
seed, arithmetic solver, Groebner step) and returns the complete output of the first instance that answers sat or unsat.  Every
instance is a plain z3 run on the unmodified query, so any answer is z3's own answer; the portfolio only removes the tail.
Stages: default parameters at once, further variants after 8 s / 20 s / 45 s.  VERIF_Z3_PORTFOLIO=0 disables it."""
import os, shutil, signal, subprocess, sys, tempfile, time

VARIANTS = [(0, []), (8, ["smt.random_seed=1"]), (20, ["smt.random_seed=7"]), (20, ["smt.arith.solver=2"]),
            (45, ["smt.random_seed=13", "smt.arith.nl.grobner=false"]), (45, ["smt.random_seed=29", "smt.arith.solver=6"])]


def main():
    z3 = shutil.which("z3-new") or "/usr/bin/z3"
    args = sys.argv[1:]
    if os.environ.get("VERIF_Z3_PORTFOLIO", "1") == "0":
        os.execv(z3, [z3] + args)
    procs = []   # (popen, outfile, variant)

    def kill_all(*_):
        for p, _f, _v in procs:
            if p.poll() is None:
                try:
                    p.kill()
                except OSError:
                    pass

    def bye(signum, frame):
        kill_all()
        sys.exit(143)
    signal.signal(signal.SIGTERM, bye)
    signal.signal(signal.SIGINT, bye)
    t0 = time.time()
    pending = list(VARIANTS)
    last_out = ""
    try:
        while True:
            now = time.time() - t0
            alive = [x for x in procs if x[0].poll() is None]
            while pending and (pending[0][0] <= now or not alive):
                _t, extra = pending.pop(0)
                f = tempfile.TemporaryFile(mode="w+")
                p = subprocess.Popen([z3] + extra + args, stdout=f, stderr=subprocess.STDOUT)
                procs.append((p, f, extra))
                alive.append(procs[-1])
            done = False
            for p, f, extra in procs:
                if p.poll() is not None and not f.closed:
                    f.seek(0)
                    out = f.read()
                    f.close()
                    first = next((l.strip() for l in out.splitlines() if l.strip()), "")
                    if first in ("sat", "unsat"):
                        kill_all()
                        sys.stdout.write(out)
                        sys.stdout.flush()
                        return 0
                    last_out = out
            if not pending and all(p.poll() is not None for p, _f, _v in procs):
                sys.stdout.write(last_out)
                return 0
            time.sleep(0.05)
    finally:
        kill_all()


if __name__ == "__main__":
    sys.exit(main())
