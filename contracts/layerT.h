/* Layer T prelude (DESIGN 2.3): the multigrid driver code of GMGPolar (cycles, solve, initializeSolution)
 * is verified over HANDLES and TOKENS.
 *   - a `Vector<double>&` is a handle vec_t = kind*MAXL + level (kind: 0 rhs, 1 solution, 2 residual, 3 error_correction)
 *   - the content of a vector is a token tok[h]; operators are uninterpreted functions over tokens
 *   - ALLOC(h) says whether Level::Level gave the vector a non-zero size (checked against its initialiser list)
 * Every operator below is a CONTRACT (no body): callers are verified against it (--replace-call-with-contract).
 * The algebraic facts a property needs are stated as contract clauses and listed as assumed in the evidence.
 */
typedef long tok_t;
typedef int vec_t;
#define assert(c) __CPROVER_assert((c), "source assert: " #c)

#ifndef MAXL
#define MAXL 64
#endif
#define NV (4 * MAXL)
#define V_RHS 0
#define V_SOLUTION 1
#define V_RESIDUAL 2
#define V_ERROR_CORRECTION 3
#define HV(level, kind) ((kind) * MAXL + (level))
#define LEVEL_OF(h) ((h) % MAXL)
#define KIND_OF(h) ((h) / MAXL)
#define VALID(h) (0 <= (h) && (h) < NV && LEVEL_OF(h) < number_of_levels_)

tok_t tok[NV];
/* sizes given by Level::Level (src/Level/level.cpp): rhs_ only where FMG || depth == 0 || (depth == 1 && extrapolation),
 * solution_ and residual_ everywhere, error_correction_ on depth > 0 */
#define ALLOC(h) (KIND_OF(h) == V_SOLUTION || KIND_OF(h) == V_RESIDUAL ||                                  \
                  (KIND_OF(h) == V_ERROR_CORRECTION && LEVEL_OF(h) > 0) ||                                   \
                  (KIND_OF(h) == V_RHS && (FMG_ || LEVEL_OF(h) == 0 || (LEVEL_OF(h) == 1 && extrapolation_ != ExtrapolationType_NONE))))

/* GMGPolar members read by the driver code */
int number_of_levels_;
int pre_smoothing_steps_, post_smoothing_steps_;
_Bool full_grid_smoothing_;
_Bool FMG_;
int FMG_iterations_;
int FMG_cycle_, multigrid_cycle_, extrapolation_;
int max_iterations_, number_of_iterations_;
#define MultigridCycleType_V_CYCLE 0
#define MultigridCycleType_W_CYCLE 1
#define MultigridCycleType_F_CYCLE 2
#define ExtrapolationType_NONE 0
#define ExtrapolationType_IMPLICIT_EXTRAPOLATION 1
#define ExtrapolationType_IMPLICIT_FULL_GRID_SMOOTHING 2
#define ExtrapolationType_COMBINED 3
#define ResidualNormType_EUCLIDEAN 0
#define ResidualNormType_WEIGHTED_EUCLIDEAN 1
#define ResidualNormType_INFINITY_NORM 2

/* ---- uninterpreted operator semantics ------------------------------------------------------- */
tok_t __CPROVER_uninterpreted_SMOOTH(int level, tok_t x, tok_t f);
tok_t __CPROVER_uninterpreted_EXSMOOTH(int level, tok_t x, tok_t f);
tok_t __CPROVER_uninterpreted_RESID(int level, tok_t f, tok_t u);
tok_t __CPROVER_uninterpreted_RESTR(int level, tok_t r);
tok_t __CPROVER_uninterpreted_EXRESTR(int level, tok_t r);
tok_t __CPROVER_uninterpreted_PROL(int level, tok_t e);
tok_t __CPROVER_uninterpreted_EXPROL(int level, tok_t e);
tok_t __CPROVER_uninterpreted_FMGI(int level, tok_t e);
tok_t __CPROVER_uninterpreted_INJ(int level, tok_t u);
tok_t __CPROVER_uninterpreted_SOLVE(int level, tok_t r);
tok_t __CPROVER_uninterpreted_ADD(tok_t u, tok_t e);
tok_t __CPROVER_uninterpreted_LC(tok_t x, double a, tok_t y, double b);
tok_t __CPROVER_uninterpreted_EXRES(int level, tok_t rfine, tok_t rcoarse);
#define SMOOTH __CPROVER_uninterpreted_SMOOTH
#define EXSMOOTH __CPROVER_uninterpreted_EXSMOOTH
#define RESID __CPROVER_uninterpreted_RESID
#define RESTR __CPROVER_uninterpreted_RESTR
#define EXRESTR __CPROVER_uninterpreted_EXRESTR
#define PROL __CPROVER_uninterpreted_PROL
#define EXPROL __CPROVER_uninterpreted_EXPROL
#define FMGI __CPROVER_uninterpreted_FMGI
#define INJ __CPROVER_uninterpreted_INJ
#define SOLVE __CPROVER_uninterpreted_SOLVE
#define ADD __CPROVER_uninterpreted_ADD
#define LC __CPROVER_uninterpreted_LC
#define EXRES __CPROVER_uninterpreted_EXRES
#define ZERO ((tok_t)0)            /* the zero vector (of whatever level) */

/* ---- algebraic facts used by C10 (assumed contract clauses; they are the statements of C03/C06/C07/C08/C04
 *      specialised to zero data / to a fixed point, see DESIGN 2.3) -------------------------------------------- */
/* FIX(l,u,f): u is the exact discrete solution on level l for right-hand side f */
_Bool __CPROVER_uninterpreted_FIX(int level, tok_t u, tok_t f);
#define FIX __CPROVER_uninterpreted_FIX
#define AX_SMOOTH_FIX(l, u, f)   (!FIX(l, u, f) || SMOOTH(l, u, f) == (u))            /* C06 */
#define AX_EXSMOOTH_FIX(l, u, f) (!FIX(l, u, f) || EXSMOOTH(l, u, f) == (u))          /* C07 */
#define AX_RESID_FIX(l, u, f)    (!FIX(l, u, f) || RESID(l, f, u) == ZERO)            /* definition of exact solution */
#define AX_ZERO_IS_FIX(l)        (FIX(l, ZERO, ZERO))                                 /* A 0 = 0 */
#define AX_RESTR_ZERO(l)         (RESTR(l, ZERO) == ZERO && EXRESTR(l, ZERO) == ZERO) /* linear maps */
#define AX_PROL_ZERO(l)          (PROL(l, ZERO) == ZERO && EXPROL(l, ZERO) == ZERO)
#define AX_SOLVE_ZERO(l)         (SOLVE(l, ZERO) == ZERO)                             /* C04 */
#define AX_ADD_ZERO(u)           (ADD(u, ZERO) == (u))

/* ---- operator contracts ------------------------------------------------------------------------ */
#define SAME_LEVEL3(l, a, b, c) (LEVEL_OF(a) == (l) && LEVEL_OF(b) == (l) && LEVEL_OF(c) == (l))

void Level_smoothing(int level, vec_t x, vec_t rhs, vec_t temp)
__CPROVER_requires(0 <= level && level < number_of_levels_ - 1)
__CPROVER_requires(VALID(x) && VALID(rhs) && VALID(temp) && SAME_LEVEL3(level, x, rhs, temp))
__CPROVER_requires(x != rhs && x != temp && rhs != temp)      /* three different vectors */
__CPROVER_requires(ALLOC(x) && ALLOC(rhs) && ALLOC(temp))
__CPROVER_assigns(tok[x], tok[temp])
__CPROVER_ensures(tok[x] == SMOOTH(level, __CPROVER_old(tok[x]), tok[rhs]))
__CPROVER_ensures(AX_SMOOTH_FIX(level, __CPROVER_old(tok[x]), tok[rhs]))
;

void Level_extrapolatedSmoothing(int level, vec_t x, vec_t rhs, vec_t temp)
__CPROVER_requires(level == 0 && number_of_levels_ >= 2)
__CPROVER_requires(VALID(x) && VALID(rhs) && VALID(temp) && SAME_LEVEL3(level, x, rhs, temp))
__CPROVER_requires(x != rhs && x != temp && rhs != temp)
__CPROVER_requires(ALLOC(x) && ALLOC(rhs) && ALLOC(temp))
__CPROVER_assigns(tok[x], tok[temp])
__CPROVER_ensures(tok[x] == EXSMOOTH(level, __CPROVER_old(tok[x]), tok[rhs]))
__CPROVER_ensures(AX_EXSMOOTH_FIX(level, __CPROVER_old(tok[x]), tok[rhs]))
;

void Level_computeResidual(int level, vec_t result, vec_t rhs, vec_t x)
__CPROVER_requires(0 <= level && level < number_of_levels_)
__CPROVER_requires(VALID(result) && VALID(rhs) && VALID(x) && SAME_LEVEL3(level, result, rhs, x))
__CPROVER_requires(result != x)                                 /* result is overwritten while x is still read */
__CPROVER_requires(ALLOC(result) && ALLOC(rhs) && ALLOC(x))
__CPROVER_assigns(tok[result])
__CPROVER_ensures(tok[result] == RESID(level, tok[rhs], tok[x]))
__CPROVER_ensures(AX_RESID_FIX(level, tok[x], tok[rhs]))
;

void Level_directSolveInPlace(int level, vec_t x)
__CPROVER_requires(level == number_of_levels_ - 1 && level >= 1)   /* only the coarsest level owns a direct solver */
__CPROVER_requires(VALID(x) && LEVEL_OF(x) == level && ALLOC(x))
__CPROVER_assigns(tok[x])
__CPROVER_ensures(tok[x] == SOLVE(level, __CPROVER_old(tok[x])))
__CPROVER_ensures(AX_SOLVE_ZERO(level))
;

/* GMGPolar::restriction(current_level, result, x): x on current_level, result on current_level + 1 */
void restriction(const int current_level, vec_t result, vec_t x)
__CPROVER_requires(current_level < number_of_levels_ - 1 && 0 <= current_level)
__CPROVER_requires(VALID(result) && VALID(x) && LEVEL_OF(x) == current_level && LEVEL_OF(result) == current_level + 1)
__CPROVER_requires(ALLOC(result) && ALLOC(x))
__CPROVER_assigns(tok[result])
__CPROVER_ensures(tok[result] == RESTR(current_level, tok[x]))
__CPROVER_ensures(AX_RESTR_ZERO(current_level))
;
void extrapolatedRestriction(const int current_level, vec_t result, vec_t x)
__CPROVER_requires(current_level < number_of_levels_ - 1 && 0 <= current_level)
__CPROVER_requires(VALID(result) && VALID(x) && LEVEL_OF(x) == current_level && LEVEL_OF(result) == current_level + 1)
__CPROVER_requires(ALLOC(result) && ALLOC(x))
__CPROVER_assigns(tok[result])
__CPROVER_ensures(tok[result] == EXRESTR(current_level, tok[x]))
__CPROVER_ensures(AX_RESTR_ZERO(current_level))
;
void injection(const int current_level, vec_t result, vec_t x)
__CPROVER_requires(current_level < number_of_levels_ - 1 && 0 <= current_level)
__CPROVER_requires(VALID(result) && VALID(x) && LEVEL_OF(x) == current_level && LEVEL_OF(result) == current_level + 1)
__CPROVER_requires(ALLOC(result) && ALLOC(x))
__CPROVER_assigns(tok[result])
__CPROVER_ensures(tok[result] == INJ(current_level, tok[x]))
;
/* GMGPolar::prolongation(current_level, result, x): x on current_level, result on current_level - 1 */
void prolongation(const int current_level, vec_t result, vec_t x)
__CPROVER_requires(current_level < number_of_levels_ && 1 <= current_level)
__CPROVER_requires(VALID(result) && VALID(x) && LEVEL_OF(x) == current_level && LEVEL_OF(result) == current_level - 1)
__CPROVER_requires(ALLOC(result) && ALLOC(x))
__CPROVER_assigns(tok[result])
__CPROVER_ensures(tok[result] == PROL(current_level, tok[x]))
__CPROVER_ensures(AX_PROL_ZERO(current_level))
;
void extrapolatedProlongation(const int current_level, vec_t result, vec_t x)
__CPROVER_requires(current_level < number_of_levels_ && 1 <= current_level)
__CPROVER_requires(VALID(result) && VALID(x) && LEVEL_OF(x) == current_level && LEVEL_OF(result) == current_level - 1)
__CPROVER_requires(ALLOC(result) && ALLOC(x))
__CPROVER_assigns(tok[result])
__CPROVER_ensures(tok[result] == EXPROL(current_level, tok[x]))
__CPROVER_ensures(AX_PROL_ZERO(current_level))
;
void FMGInterpolation(const int current_level, vec_t result, vec_t x)
__CPROVER_requires(current_level < number_of_levels_ && 1 <= current_level)
__CPROVER_requires(VALID(result) && VALID(x) && LEVEL_OF(x) == current_level && LEVEL_OF(result) == current_level - 1)
__CPROVER_requires(ALLOC(result) && ALLOC(x))
__CPROVER_assigns(tok[result])
__CPROVER_ensures(tok[result] == FMGI(current_level, tok[x]))
;
void extrapolatedResidual(const int current_level, vec_t residual, vec_t residual_next_level)
__CPROVER_requires(current_level < number_of_levels_ - 1 && 0 <= current_level)
__CPROVER_requires(VALID(residual) && VALID(residual_next_level) && LEVEL_OF(residual) == current_level &&
                   LEVEL_OF(residual_next_level) == current_level + 1)
__CPROVER_requires(ALLOC(residual) && ALLOC(residual_next_level))
__CPROVER_assigns(tok[residual])
__CPROVER_ensures(tok[residual] == EXRES(current_level, __CPROVER_old(tok[residual]), tok[residual_next_level]))
;

/* vector_operations.h */
void add(vec_t result, vec_t x)
__CPROVER_requires(VALID(result) && VALID(x) && LEVEL_OF(result) == LEVEL_OF(x) && result != x)
__CPROVER_requires(ALLOC(result) && ALLOC(x))
__CPROVER_assigns(tok[result])
__CPROVER_ensures(tok[result] == ADD(__CPROVER_old(tok[result]), tok[x]))
__CPROVER_ensures(AX_ADD_ZERO(__CPROVER_old(tok[result])))
;
void assign(vec_t lhs, double value)
__CPROVER_requires(VALID(lhs) && ALLOC(lhs) && value == 0.0)
__CPROVER_assigns(tok[lhs])
__CPROVER_ensures(tok[lhs] == ZERO)
__CPROVER_ensures(AX_ZERO_IS_FIX(LEVEL_OF(lhs)))
;
void linear_combination(vec_t x, double alpha, vec_t y, double beta)
__CPROVER_requires(VALID(x) && VALID(y) && LEVEL_OF(x) == LEVEL_OF(y) && x != y)
__CPROVER_requires(ALLOC(x) && ALLOC(y))
__CPROVER_assigns(tok[x])
__CPROVER_ensures(tok[x] == LC(__CPROVER_old(tok[x]), alpha, tok[y], beta))
;
void vec_copy(vec_t dst, vec_t src)          /* Vector<double>::operator=(const Vector&) */
__CPROVER_requires(VALID(dst) && VALID(src) && LEVEL_OF(dst) == LEVEL_OF(src))
__CPROVER_requires(ALLOC(src))
__CPROVER_requires(ALLOC(dst))
__CPROVER_assigns(tok[dst])
__CPROVER_ensures(tok[dst] == tok[src])
;
void vec_swap(vec_t a, vec_t b)                /* std::swap of two Vector<double> */
__CPROVER_requires(VALID(a) && VALID(b) && LEVEL_OF(a) == LEVEL_OF(b) && a != b)
__CPROVER_requires(ALLOC(a) && ALLOC(b))
__CPROVER_assigns(tok[a], tok[b])
__CPROVER_ensures(tok[a] == __CPROVER_old(tok[b]) && tok[b] == __CPROVER_old(tok[a]))
;
