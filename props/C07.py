"""C07 -- extrapolated smoothing relaxes fine-only nodes and never moves coarse nodes (see props/smoother.py)."""
import re
from vlib import Rules, Job
import units, C03, C04, smoother


def idx(nr, nt, nsc, a, b):
    return b + nt * a if a < nsc else nsc * nt + (a - nsc) + (nr - nsc) * b


def jobs_for(cls, nr, nt, nsc, dirbc, assembly="sequential", only_lines=None):
    rules, hashes = Rules("C07"), {}
    N = nr * nt
    c = smoother.smoother_unit(cls, rules, hashes, nr, nt)
    if assembly == "parallel":
        c.append(smoother.parallel_assembly(cls, rules, hashes))
    cfg = smoother.CFG[cls]
    c.append("static real_t X0[%d], F0[%d], XF[%d], AXF[%d];" % (N, N, N, N))
    c.append("static void setup(void) {")
    c.append(units.grid_setup_concrete("grid_", nr, nt, nsc, antipodal=True))
    c += C03.cache_setup(N, nr, nt, 1, 1)
    c.append("  DirBC_Interior_ = %d; result_size = rhs_size = x_size = temp_size = %d; verif_omp_max_threads = 1;" % (dirbc, N))
    c += smoother.allocation(cls, nr, nt, nsc, dirbc, rules)
    if assembly == "parallel":
        c.append("  %s_assemble_parallel_order();   /* task order of the multi-threaded branch of buildAscMatrices */" % cls)
    else:
        c.append("  for (int i_r = 0; i_r < grid_.numberSmootherCircles(); i_r++) %s_buildAscCircleSection__impl(i_r);" % cls)
        c.append("  for (int i_theta = 0; i_theta < grid_.ntheta(); i_theta++) %s_buildAscRadialSection__impl(i_theta);" % cls)
    c.append("}")
    # lines of the smoother: circles i_r in [0, nsc) start at index(i_r, 0); radial lines i_theta start at index(nsc, i_theta)
    lines = [("circle", a, idx(nr, nt, nsc, a, 0), [(a, b) for b in range(nt)]) for a in range(nsc)] + \
            [("radial", b, idx(nr, nt, nsc, nsc, b), [(a, b) for a in range(nsc, nr)]) for b in range(nt)]
    jobs = []
    if only_lines is not None:
        lines = [l for l in lines if (l[0], l[1]) in only_lines]
    for (sweep, threads) in (cfg["sweeps"][:1] if assembly == "parallel" else cfg["sweeps"]):
     for (kind, li, start, nodes) in lines:
         last_colour = (kind == "radial" and li % 2 == 1)
         has_coarse = any(a % 2 == 0 and b % 2 == 0 for (a, b) in nodes)
         for mode in ([0, 1] if (last_colour or has_coarse) else [1]):
             h = ["void harness(void) {", "  setup();", "  g_mode = %d; g_target_start = %d; g_target_seen = 0; verif_omp_max_threads = %d;" % (mode, start, threads)]
             h += ["  X0[%d] = nondet_real(); F0[%d] = nondet_real();" % (k, k) for k in range(N)]
             if mode == 1:
                 # x0 is the exact discrete solution on the target line's rows: (A x0)[k] == f[k]
                 h += ["  x[%d] = X0[%d]; rhs[%d] = F0[%d]; result[%d] = nondet_real();" % (k, k, k, k, k) for k in range(N)]
                 h.append("  ResidualTake_computeResidual__impl();")
                 h += ["  __CPROVER_assume(result[%d] == 0);" % idx(nr, nt, nsc, a, b) for (a, b) in nodes]
             h += ["  x[%d] = X0[%d]; rhs[%d] = F0[%d]; temp[%d] = nondet_real();" % (k, k, k, k, k) for k in range(N)]
             h.append("  %s_%s__impl();" % (cls, sweep))
             h.append("  __CPROVER_assert(g_target_seen, \"OBL:the_sweep_solves_the_target_line\");")
             if mode == 0:
                 h += ["  XF[%d] = x[%d];" % (k, k) for k in range(N)]
                 h += ["  rhs[%d] = F0[%d]; result[%d] = nondet_real();" % (k, k, k) for k in range(N)]
                 h.append("  ResidualTake_computeResidual__impl();")
                 for (a, b) in nodes:
                     if a % 2 == 0 and b % 2 == 0:
                         h.append("  __CPROVER_assert(XF[%d] == X0[%d], \"OBL:coarse_node_is_not_moved[node=(%d,%d)]\");" % (idx(nr, nt, nsc, a, b), idx(nr, nt, nsc, a, b), a, b))
                     if not last_colour:
                         continue
                     if a == nr - 1:
                         h.append("  __CPROVER_assert(XF[%d] == F0[%d], \"OBL:dirichlet_node_carries_boundary_data[node=(%d,%d)]\");" % (idx(nr, nt, nsc, a, b), idx(nr, nt, nsc, a, b), a, b))
                     h.append("  __CPROVER_assert(result[%d] == 0, \"OBL:residual_vanishes_on_last_updated_colour[node=(%d,%d)]\");" % (idx(nr, nt, nsc, a, b), a, b))
             h.append("  __CPROVER_assert(X0[0] != X0[0], \"COVER:reached_end\");")
             h.append("}")
             tag = "[%s%s.%s,%s,%s%d,nr=%d,nt=%d,nsc=%d,DirBC=%d]" % (cls, ".parallelAssembly" if assembly == "parallel" else "", sweep, "relax" if mode == 0 else "fixedpoint", kind, li, nr, nt, nsc, dirbc)
             j = Job("C07." + tag, "\n".join(c + h), "R", unwind=max(N, 5 * nt) + 2, timeout=900,
                     bounded="grid shape fixed %dx%d split %d DirBC=%d; all real data symbolic" % (nr, nt, nsc, dirbc),
                     functions=["%s::%s" % (cls, m) for m in ("buildAscCircleSection", "buildAscRadialSection", "applyAscOrthoCircleSection",
                                                               "applyAscOrthoRadialSection", "solveCircleSection", "solveRadialSection", sweep)],
                     covers={"COVER:reached_end"}, split=r"^OBL:(residual|exact|dirichlet|coarse)|^COVER:", split_chunk=1, split_timeout=500,
                     skip_batch=(len(jobs) > 0),
                     extra=["--max-field-sensitivity-array-size", "8192"])
             j.rules, j.hashes = rules, hashes
             jobs.append(j)
    return jobs


def shapes(tier):
    fam = [(7, 4, 3, (0, 1)), (7, 4, 4, (0,))]
    if tier != "quick":
        fam += [(7, 4, 4, (1,)), (7, 12, 4, (0,)), (7, 8, 4, (0,)), (9, 4, 3, (1,))]
    return fam


CLASSES = ("ExtrapolatedSmootherTake", "ExtrapolatedSmootherGive")


def build_jobs(tier, seed):
    jobs = []
    for (nr, nt, nsc, bcs) in shapes(tier):
        for dirbc in bcs:
            for cls in CLASSES:
                jobs += jobs_for(cls, nr, nt, nsc, dirbc)
    par = [(7, 4, 3, 0, [("radial", b) for b in range(4)] + [("circle", 1), ("circle", 2)])]
    if tier != "quick":
        par += [(7, 12, 4, 0, [("radial", b) for b in (0, 1, 2, 3, 4, 11)] + [("circle", 1), ("circle", 3)])]
    for (nr, nt, nsc, dirbc, ol) in par:
        jobs += jobs_for("ExtrapolatedSmootherGive", nr, nt, nsc, dirbc, assembly="parallel", only_lines=ol)
    return jobs


EXPLANATION = (
    "Layer R on the real extrapolated-smoother text (both strategies; build / applyAscOrtho macros and section functions, solve*Section, "
    "the sequential sweep driver), concrete finest-level grid shapes (>= 3 circles, >= 3 radial nodes, both parities of the circle "
    "count), all real data symbolic; line solves (diagonal, tridiagonal, cyclic, inner-circle LU) through their contracts, one target "
    "line per job. Obligations: a coarse (even/even) node of the target line keeps its value for ARBITRARY iterate and rhs (exact "
    "arithmetic: its row of the line system is an identity row and temp holds x there); on lines of the colour updated last the "
    "residual of the independent residual operator vanishes on fine-only nodes; on the exact discrete solution the iterate already "
    "solves every line system (fixed point); both strategies satisfy the same contracts. `bit-for-bit` is decided in exact "
    "arithmetic only: the IEEE step ((v - 0*a)/1 == v) is a textbook floating-point fact, not checked. Bounded in grid shape.")


def run(tier, seed, work):
    import vlib
    rep = vlib.Report("C07", tier, seed)
    jobs = build_jobs(tier, seed)
    vlib.run_jobs(jobs, work)
    rep.absorb(jobs, replay_cb=vlib.ops_replay_cb("exsmoother"))
    rep.extraction = {"rules_fired": jobs[0].rules.summary(), "body_sha256_16": jobs[-1].hashes,
                      "dropped": ["#pragma omp", "per-thread solver scratch Vector declarations", "MUMPS branches (build has GMGPOLAR_USE_MUMPS off)",
                                  "allocation part of buildAscMatrices (performed by the harness, text checked)"]}
    rep.trusted = ["double treated as mathematical real", "CBMC 6.11 + z3 5.1", "extractor rules", "line-solve contracts (C14 decided, sparse LU assumed)",
                   "non-singularity of the line systems (SPD, C05) for `solution unique`"]
    rep.assumptions = ["antipodal angles", "both caches on for the take strategy", "shape-bounded"]
    return rep.finish("other", EXPLANATION, "cbmc unit.c --function harness --z3 --unwind N --unwinding-assertions [--property P --slice-formula]")


def replay(path):
    return 0
