"""C20 -- see props/driver.py"""
import driver

EXPLANATION = "Statistics/UB part of C20 on the driver: every source assert and every vector subscript of solve() holds, no local is read before it is written (definedness ghosts), throw statements are unreachable for validated option values, exactError getters call back() only on a non-empty history and report a value iff one was recorded. Parser/enum validation, setup() rejection paths and kernel memory safety are covered by the other checks' bounds/assert obligations (C03-C08, C14, C17) or not decided (cmdline parser, anisotropic division)."


def run(tier, seed, work):
    return driver.run_property("C20", tier, seed, work, ("converged", "getters", "solve"), EXPLANATION)


def replay(path):
    import json
    print(json.dumps(json.load(open(path)), indent=1)[:4000])
    return 0
