"""C20 -- option combinations are rejected cleanly or run without UB; statistics are well defined (see props/driver.py, C17.split)."""
import driver, C17, C18, parser as optparser

EXPLANATION = ("Decided parts of C20: (driver, Layer T) every source assert and vector subscript of solve() holds, no local is read before it is "
               "written, throw statements are unreachable for validated option values, the exactError getters call back() only on a non-empty "
               "history and report a value iff one was recorded; (grid split) the automatic circle/radial split guarantees what every smoother "
               "asserts (>= 2 circles, >= 3 radial nodes, >= 3 circles when nr > 5) for every nr >= 3 (loop contract, unbounded) -- known finding F13 "
               "for nr == 2 is reported under C17; (levels) chooseNumberOfLevels rejects exactly the grids without a two-level hierarchy "
               "(C18 job). Memory safety of the numerical kernels is part of the per-kernel checks (bounds / source-assert obligations of "
               "C03-C08, C14). (options, props/parser.py) the verbatim bodies of parseGrid / parseGeometry / parseMultigrid / "
               "parseGeneral for EVERY value of every option: each throws exactly when an enum option is not an enumerator, otherwise every enum member "
               "holds a valid enumerator and every other member the option value, a negative tolerance is disabled and a positive one stored, selectTestCase is "
               "called once after the options are stored; the prologue of setup() rejects exactly the take strategy without both caches before "
               "anything is built; (grid generation) subscripts of the uniform / anisotropic-window / bisection / coarsening code (C18 jobs). "
               "NOT decided: the cmdline.h library (registration, defaults, oneof ranges), the rest of setup(), the std::set part of the anisotropic "
               "division, finiteness of the solution.")


def run(tier, seed, work):
    import vlib
    rep = vlib.Report("C20", tier, seed)
    jobs = driver.build_jobs(which=("converged", "getters", "solve")) + [C17.split_job(nt) for nt in (4, 8, 12)] + C18.build_jobs(tier, seed) + optparser.build_jobs(tier, seed)
    vlib.run_jobs(jobs, work)
    rep.absorb(jobs, keep=driver.absorb_filter("C20"))
    rep.extraction = {"rules_fired": jobs[0].rules.summary(), "body_sha256_16": {k: v for j in jobs for k, v in j.hashes.items()}, "dropped": driver.DROPPED}
    rep.trusted, rep.assumptions = driver.TRUSTED, driver.ASSUMED
    return rep.finish("other", EXPLANATION, "goto-cc; goto-instrument --unwindset/--apply-loop-contracts; cbmc --unwind N --unwinding-assertions")


def replay(path):
    import json
    print(json.dumps(json.load(open(path)), indent=1)[:4000])
    return 0
