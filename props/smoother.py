"""Layer R unit for the line smoothers (serves C06 and C07).

The real text of build*Asc*Section (+ NODE_BUILD_* macros), applyAscOrtho*Section (+ NODE_APPLY_ASC_ORTHO_* macros), the sweep
driver (smoothing / smoothingSequential) and solve*Section is executed on concrete grid shapes with symbolic real data.
The only callee replaced by its CONTRACT is the line solve `S.solveInPlace(temp + start, ...)`:
      returns y with  A_sc y == temp_line  (rows of the line system the build code stored),  unique
which is what C14 decides for the tridiagonal solvers and what is assumed for the sparse LU of the inner circle (C16).
"""
import re
from vlib import Src, Rules, Job, ExtractError, common_body_rewrites, sha, match_close, fn_to_macro
import units
import C03
import C04

TS_PRELUDE = r"""
/* SymmetricTridiagonalSolver<double> / DiagonalSolver<double> objects of the smoother: matrix storage as in the class headers;
   the reference-returning accessors become member macros */
struct TS { int matrix_dimension_; real_t main_diagonal_values_[TS_MAXN]; real_t sub_diagonal_values_[TS_MAXN];
            real_t cyclic_corner_element_; _Bool is_cyclic_; };
struct DS { int matrix_dimension_; real_t diagonal_values_[TS_MAXN]; };
#define main_diagonal(i) main_diagonal_values_[TSI(i)]
#define sub_diagonal(i) sub_diagonal_values_[TSI(i)]
#define cyclic_corner_element() cyclic_corner_element_
#define diagonal(i) diagonal_values_[TSI(i)]
#define columns() matrix_dimension_
#define rows() matrix_dimension_
#define TSI(i) (__CPROVER_assert((i) >= 0 && (i) < TS_MAXN, "line-matrix index within the allocated dimension"), (i))
static real_t lin_y[TS_MAXN];
#define VEC_MOVE_RANGE(src, s, e, dst, d) do { for (int vm_i = 0; vm_i < (e) - (s); vm_i++) dst[(d) + vm_i] = src[(s) + vm_i]; } while (0)
/* ---- contracts of the line solves (the only callees replaced).  One TARGET line per verification job:
   g_mode == 0 (exact relaxation):  target line := y with A_sc y == temp_line (contract of solveInPlace, C14 / C16);
                                    every other line := arbitrary values (over-approximation of whatever its solve returns)
   g_mode == 1 (fixed point):       the sweep runs on the exact discrete solution; obligation at the target line:
                                    A_sc cur_line == temp_line, i.e. the current iterate already solves the line system
                                    (so the unique solution the solver returns is the iterate itself); no line is changed */
static int g_mode, g_target_start; static _Bool g_target_seen;
#define CONTRACT_TS_SOLVE(S, v, cur, start) do { \
    const int ts_n = (S).matrix_dimension_; \
    __CPROVER_assert(ts_n >= 2 && ts_n <= TS_MAXN, "source assert: matrix_dimension_ >= 2"); \
    const _Bool ts_target = ((start) == g_target_start); if (ts_target) g_target_seen = 1; \
    for (int ts_k = 0; ts_k < ts_n; ts_k++) lin_y[ts_k] = nondet_real(); \
    for (int ts_k = 0; ts_k < ts_n; ts_k++) { \
        real_t ts_row = (S).main_diagonal_values_[ts_k] * lin_y[ts_k], ts_cur = (S).main_diagonal_values_[ts_k] * cur[(start) + ts_k]; \
        if (ts_k > 0) { ts_row = ts_row + (S).sub_diagonal_values_[ts_k - 1] * lin_y[ts_k - 1]; ts_cur = ts_cur + (S).sub_diagonal_values_[ts_k - 1] * cur[(start) + ts_k - 1]; } \
        if (ts_k < ts_n - 1) { ts_row = ts_row + (S).sub_diagonal_values_[ts_k] * lin_y[ts_k + 1]; ts_cur = ts_cur + (S).sub_diagonal_values_[ts_k] * cur[(start) + ts_k + 1]; } \
        if ((S).is_cyclic_ && ts_k == 0) { ts_row = ts_row + (S).cyclic_corner_element_ * lin_y[ts_n - 1]; ts_cur = ts_cur + (S).cyclic_corner_element_ * cur[(start) + ts_n - 1]; } \
        if ((S).is_cyclic_ && ts_k == ts_n - 1) { ts_row = ts_row + (S).cyclic_corner_element_ * lin_y[0]; ts_cur = ts_cur + (S).cyclic_corner_element_ * cur[(start)]; } \
        if (ts_target && g_mode == 0) __CPROVER_assume(ts_row == v[(start) + ts_k]); \
        if (ts_target && g_mode == 1) __CPROVER_assert(ts_cur == v[(start) + ts_k], "OBL:exact_solution_solves_the_target_line_system(tridiagonal)"); } \
    for (int ts_k = 0; ts_k < ts_n; ts_k++) v[(start) + ts_k] = (g_mode == 0) ? lin_y[ts_k] : cur[(start) + ts_k]; \
  } while (0)
#define CONTRACT_DS_SOLVE(S, v, cur, start) do { \
    const int ts_n = (S).matrix_dimension_; \
    const _Bool ts_target = ((start) == g_target_start); if (ts_target) g_target_seen = 1; \
    for (int ts_k = 0; ts_k < ts_n; ts_k++) { lin_y[ts_k] = nondet_real(); \
        if (ts_target && g_mode == 0) __CPROVER_assume((S).diagonal_values_[ts_k] * lin_y[ts_k] == v[(start) + ts_k]); \
        if (ts_target && g_mode == 1) __CPROVER_assert((S).diagonal_values_[ts_k] * cur[(start) + ts_k] == v[(start) + ts_k], "OBL:exact_solution_solves_the_target_line_system(diagonal)"); \
        v[(start) + ts_k] = (g_mode == 0) ? lin_y[ts_k] : cur[(start) + ts_k]; } \
  } while (0)
#define CONTRACT_LU_SOLVE(M, v, cur, start) do { \
    const int lu_n = (M).rows_; \
    const _Bool lu_target = ((start) == g_target_start); if (lu_target) g_target_seen = 1; \
    for (int lu_k = 0; lu_k < lu_n; lu_k++) lin_y[lu_k] = nondet_real(); \
    for (int lu_k = 0; lu_k < lu_n; lu_k++) { real_t lu_row = 0, lu_cur = 0; \
        for (int lu_s = (M).row_start_indices_[lu_k]; lu_s < (M).row_start_indices_[lu_k + 1]; lu_s++) { \
            lu_row = lu_row + (M).values_[lu_s] * lin_y[(M).column_indices_[lu_s]]; lu_cur = lu_cur + (M).values_[lu_s] * cur[(start) + (M).column_indices_[lu_s]]; } \
        if (lu_target && g_mode == 0) __CPROVER_assume(lu_row == v[(start) + lu_k]); \
        if (lu_target && g_mode == 1) __CPROVER_assert(lu_cur == v[(start) + lu_k], "OBL:exact_solution_solves_the_target_line_system(inner circle LU)"); } \
    for (int lu_k = 0; lu_k < lu_n; lu_k++) v[(start) + lu_k] = (g_mode == 0) ? lin_y[lu_k] : cur[(start) + lu_k]; \
  } while (0)
"""

CFG = {
    "SmootherTake": dict(dir="src/Smoother/SmootherTake", hdr="include/Smoother/SmootherTake/smootherTake.h",
                         build_macros=["UPDATE_MATRIX_ELEMENT", "COO_CSR_UPDATE", "NODE_BUILD_SMOOTHER_TAKE"],
                         apply_macros=["NODE_APPLY_ASC_ORTHO_CIRCLE_TAKE", "NODE_APPLY_ASC_ORTHO_RADIAL_TAKE"],
                         build_file="buildMatrix.cpp", sweep="smoothing", sweeps=[("smoothing", 1)], extrapolated=False),
    "SmootherGive": dict(dir="src/Smoother/SmootherGive", hdr="include/Smoother/SmootherGive/smootherGive.h",
                         build_macros=["UPDATE_MATRIX_ELEMENT", "COO_CSR_UPDATE", "NODE_BUILD_SMOOTHER_GIVE"],
                         apply_macros=["NODE_APPLY_ASC_ORTHO_CIRCLE_GIVE", "NODE_APPLY_ASC_ORTHO_RADIAL_GIVE"],
                         build_file="buildMatrix.cpp", sweep="smoothingSequential", sweeps=[("smoothingSequential", 1), ("smoothingForLoop", 4)], extrapolated=False),
    "ExtrapolatedSmootherTake": dict(dir="src/ExtrapolatedSmoother/ExtrapolatedSmootherTake",
                                     hdr="include/ExtrapolatedSmoother/ExtrapolatedSmootherTake/extrapolatedSmootherTake.h",
                                     build_macros=["UPDATE_TRIDIAGONAL_ELEMENT", "UPDATE_DIAGONAL_ELEMENT", "COO_CSR_UPDATE", "NODE_BUILD_SMOOTHER_TAKE"],
                                     apply_macros=["NODE_APPLY_ASC_ORTHO_CIRCLE_TAKE", "NODE_APPLY_ASC_ORTHO_RADIAL_TAKE"],
                                     build_file="buildAscMatrices.cpp", sweep="extrapolatedSmoothing", sweeps=[("extrapolatedSmoothing", 1)], extrapolated=True),
    "ExtrapolatedSmootherGive": dict(dir="src/ExtrapolatedSmoother/ExtrapolatedSmootherGive",
                                     hdr="include/ExtrapolatedSmoother/ExtrapolatedSmootherGive/extrapolatedSmootherGive.h",
                                     build_macros=["UPDATE_TRIDIAGONAL_ELEMENT", "UPDATE_DIAGONAL_ELEMENT", "COO_CSR_UPDATE", "NODE_BUILD_SMOOTHER_GIVE"],
                                     apply_macros=["NODE_APPLY_ASC_ORTHO_CIRCLE_GIVE", "NODE_APPLY_ASC_ORTHO_RADIAL_GIVE"],
                                     build_file="buildAscMatrices.cpp", sweep="extrapolatedSmoothingSequential", sweeps=[("extrapolatedSmoothingSequential", 1), ("extrapolatedSmoothingForLoop", 4)], extrapolated=True),
}


def subst_auto_aliases(text, rules, what):
    """R2 inside macro / function text: `auto& NAME = EXPR;` binds NAME to the object EXPR until the end of the enclosing block;
    the declaration is removed and NAME replaced by (EXPR) there (an alias has no storage).  For `auto& NAME = C ? A : B;` (an
    lvalue conditional, not C) every statement that mentions NAME becomes `if (C) { stmt[A] } else { stmt[B] }`."""
    pat = re.compile(r"(?:const\s+)?auto\s*&\s*(\w+)\s*=\s*([^;]+);")
    n = 0
    while True:
        ms = list(pat.finditer(text))
        if not ms:
            break
        m = ms[-1]
        name = m.group(1)
        expr = " ".join(m.group(2).replace("\\", " ").split())
        from layert import enclosing_block_end
        end = enclosing_block_end(text, m.end())
        seg = text[m.end():end]
        tm = re.match(r"^\((.+)\)\s*\?\s*(.+?)\s*:\s*(.+)$", expr)
        if tm:
            cond, ea, eb = tm.group(1), tm.group(2), tm.group(3)
            out, pos = [], 0
            for sm in re.finditer(r"[^;{}]*\b%s\b[^;{}]*;" % re.escape(name), seg):
                stmt = sm.group(0)
                lead = re.match(r"^(\s*(?:\\\s*)*)", stmt).group(1)
                core = stmt[len(lead):]
                out.append(seg[pos:sm.start()] + lead)
                out.append("if (%s) { %s } else { %s }" % (cond, re.sub(r"\b%s\b" % name, "(%s)" % ea, core), re.sub(r"\b%s\b" % name, "(%s)" % eb, core)))
                pos = sm.end()
            out.append(seg[pos:])
            seg = "".join(out)
        else:
            seg = re.sub(r"(?<![\w.])%s\b" % re.escape(name), "(%s)" % expr, seg)
        text = text[:m.start()] + seg + text[end:]
        n += 1
    rules.log.append(("R2.auto_alias(%s)" % what, n))
    return text


def smoother_unit(cls, rules, hashes, nr, nt):
    cfg = CFG[cls]
    N = nr * nt
    c = C03.residual_unit(rules, hashes, nr, nt)
    C04.check_csr_accessors()
    c.append("#define CSR_MAXNNZ %d\n#define CSR_MAXROWS %d\n#define TS_MAXN %d" % (4 * nt + 4, nt, max(nr, nt) + 1))
    c.append(C04.CSR_PRELUDE.replace("static struct CSR solver_matrix;", "static struct CSR inner_boundary_circle_matrix_;"))
    c.append(TS_PRELUDE)
    c.append(C04.stencil_tables(cfg["hdr"], rules))
    c.append("static struct TS circle_tridiagonal_solver_[%d], radial_tridiagonal_solver_[%d];" % (nr + 1, nt + 1))
    if cfg["extrapolated"]:
        c.append("static struct DS circle_diagonal_solver_[%d], radial_diagonal_solver_[%d];" % (nr + 1, nt + 1))
    c.append("static real_t temp[%d]; static int temp_size;" % N)
    c.append("typedef int SmootherColor; enum { SmootherColor_Black = 0, SmootherColor_White = 1 };")
    # stencil / index helpers
    ms = Src.get(cfg["dir"] + "/" + ("matrixStencil.cpp" if not cfg["extrapolated"] else "smootherStencil.cpp"))
    for fn, ret in (("getStencil", "const int*"), ("getCircleAscIndex", "int"), ("getRadialAscIndex", "int")):
        f = ms.function("%s::%s" % (cls, fn))
        hashes["%s::%s" % (cls, fn)] = sha(f["body"])
        b = common_body_rewrites(f["body"], rules, "R")
        b = rules.sub("R8.throw", r"throw\s+std::(\w+)\(([^;]*)\);", r'VERIF_THROW("\1"); return 0;', b)
        ps = ", ".join("const int " + p[1] for p in f["params"])
        c.append("static %s %s(%s)\n{%s}\n" % (ret, fn, ps, b))
    # build macros + section functions
    bsrc = Src.get(cfg["dir"] + "/" + cfg["build_file"])
    for mn in cfg["build_macros"]:
        mt = bsrc.macro(mn)
        hashes["%s::%s" % (cls, mn)] = sha(mt)
        mt = subst_auto_aliases(mt, rules, mn)
        mt = rules.sub("C04.csr_accessor", r"(\([^()]*\)|\bmatrix)\.row_nz_(index|entry)\(", r"CSR_row_nz_\2(\1, ", mt)
        mt = rules.sub("C04.stencil_ref", r"const\s+Stencil\s*&\s*(\w+)\s*=\s*", r"const int* \1 = ", mt)
        c.append(common_body_rewrites(mt, rules, "R"))
    text, em = units.emit_class_methods(cls, [(cfg["dir"] + "/" + cfg["build_file"], "buildAscCircleSection"),
                                              (cfg["dir"] + "/" + cfg["build_file"], "buildAscRadialSection")], rules, "R", hashes,
                                        pre_rewrite=lambda m, b, r: give_cache_rewrites(b, r))
    c.append(text)
    for mn in cfg["build_macros"]:
        c.append("#undef " + mn)
    # applyAscOrtho macros + functions, solve sections, the sweep driver
    ssrc = Src.get(cfg["dir"] + "/smootherSolver.cpp")
    for mn in cfg["apply_macros"]:
        mt = ssrc.macro(mn)
        hashes["%s::%s" % (cls, mn)] = sha(mt)
        c.append(common_body_rewrites(mt, rules, "R"))

    def pre(m, body, r):
        body = give_cache_rewrites(body, r)
        # line solves -> contracts (the only replaced callees)
        body = r.sub("S.lu_solve", r"inner_boundary_lu_solver_\.solveInPlace\(temp\.begin\(\)\s*\+\s*start\)\s*;",
                     "CONTRACT_LU_SOLVE(inner_boundary_circle_matrix_, temp, x, start);", body)
        body = r.sub("S.ts_solve", r"(circle|radial)_tridiagonal_solver_\[(\w+(?:\s*/\s*2)?)\]\.solveInPlace\(temp\.begin\(\)\s*\+\s*start,[^;]*\)\s*;",
                     r"CONTRACT_TS_SOLVE(\1_tridiagonal_solver_[\2], temp, x, start);", body)
        body = r.sub("S.ds_solve", r"(circle|radial)_diagonal_solver_\[(\w+(?:\s*/\s*2)?)\]\.solveInPlace\(temp\.begin\(\)\s*\+\s*start\)\s*;",
                     r"CONTRACT_DS_SOLVE(\1_diagonal_solver_[\2], temp, x, start);", body)
        body = r.sub("S.move_range", r"std::move\(temp\.begin\(\)\s*\+\s*start,\s*temp\.begin\(\)\s*\+\s*end,\s*x\.begin\(\)\s*\+\s*start\)\s*;",
                     "VEC_MOVE_RANGE(temp, start, end, x, start);", body)
        # per-thread scratch vectors of the line solvers: only passed to the replaced solves
        body = r.sub("S.scratch_decl", r"^\s*Vector<double>\s+(circle_solver_storage_1|circle_solver_storage_2|radial_solver_storage)\([^;]*\);", "", body, flags=re.M)
        return body
    solve_names = ["solveCircleSection", "solveRadialSection"]
    meths = [(cfg["dir"] + "/smootherSolver.cpp", m) for m in
             ["applyAscOrthoCircleSection", "applyAscOrthoRadialSection"] + solve_names + [sw for (sw, th) in cfg["sweeps"]]]
    text, em = units.emit_class_methods(cls, meths, rules, "R", hashes, pre_rewrite=pre, vec_names=("temp", "rhs", "x"),
                                        enum_types=("SmootherColor",), extra_vecs=("circle_solver_storage_1", "circle_solver_storage_2", "radial_solver_storage",
                                                                                     "solver_storage_1", "solver_storage_2", "solver_storage"))
    c.append(text)
    return c


def give_cache_rewrites(body, r):
    """Give variants read the caches through accessors: level_cache_.coeff_beta()[i] -> member array; providers -> const objects"""
    body = r.sub("R10.lc_member_array", r"level_cache_\.(coeff_beta|coeff_alpha|arr|att|art|detDF|sin_theta|cos_theta)\(\)\[",
                 lambda m: "level_cache___%s[" % units.LC_ACCESSORS[m.group(1)], body)
    body = r.sub("R10.providers", r"\b(density_profile_coefficients_|domain_geometry_)\b", r"level_cache___\1", body)
    return body


def allocation(cls, nr, nt, nsc, dirbc, rules):
    """Part 1 of buildAscMatrices (allocation; std::function lambda, resize) is performed by the harness according to the
    text checked here: circle systems cyclic of dimension ntheta, radial systems non-cyclic of dimension lengthSmootherRadial,
    inner circle CSR with 1 (Dirichlet) or 4 (across origin) entries per row."""
    cfg = CFG[cls]
    f = Src.get(cfg["dir"] + "/" + cfg["build_file"]).function("%s::buildAscMatrices" % cls)
    b = " ".join(f["body"].split())
    t = []
    lsr = nr - nsc
    if not cfg["extrapolated"]:
        need = [r"solverMatrix = SymmetricTridiagonalSolver<double>\(num_circle_nodes\); solverMatrix\.is_cyclic\(true\);",
                r"solverMatrix = SymmetricTridiagonalSolver<double>\(num_radial_nodes\); solverMatrix\.is_cyclic\(false\);",
                r"return DirBC_Interior_\s*\? 1 : 4;", r"const int num_circle_nodes = grid_\.ntheta\(\);",
                r"const int num_radial_nodes = length_smoother_radial;"]
        for n in need:
            if not re.search(n, b):
                raise ExtractError("%s::buildAscMatrices allocation text changed: %s" % (cls, n))
        rules.log.append(("S.allocation_text_checked", len(need)))
        for i in range(1, nsc):
            t.append("  circle_tridiagonal_solver_[%d].matrix_dimension_ = %d; circle_tridiagonal_solver_[%d].is_cyclic_ = 1; circle_tridiagonal_solver_[%d].cyclic_corner_element_ = 0;" % (i, nt, i, i))
            t.append("  for (int k = 0; k < %d; k++) { circle_tridiagonal_solver_[%d].main_diagonal_values_[k] = 0; circle_tridiagonal_solver_[%d].sub_diagonal_values_[k] = 0; }" % (nt, i, i))
        for j in range(nt):
            t.append("  radial_tridiagonal_solver_[%d].matrix_dimension_ = %d; radial_tridiagonal_solver_[%d].is_cyclic_ = 0; radial_tridiagonal_solver_[%d].cyclic_corner_element_ = 0;" % (j, lsr, j, j))
            t.append("  for (int k = 0; k < %d; k++) { radial_tridiagonal_solver_[%d].main_diagonal_values_[k] = 0; radial_tridiagonal_solver_[%d].sub_diagonal_values_[k] = 0; }" % (lsr, j, j))
        per = 1 if dirbc else 4
        t.append("  inner_boundary_circle_matrix_.rows_ = %d; inner_boundary_circle_matrix_.columns_ = %d; inner_boundary_circle_matrix_.nnz_ = %d;" % (nt, nt, per * nt))
        t.append("  for (int k = 0; k <= %d; k++) inner_boundary_circle_matrix_.row_start_indices_[k] = %d * k;" % (nt, per))
        t.append("  for (int s = 0; s < %d; s++) { inner_boundary_circle_matrix_.column_indices_[s] = -1; inner_boundary_circle_matrix_.values_[s] = 0; }" % (per * nt))
    else:
        need = [r"solver_matrix = SymmetricTridiagonalSolver<double>\(num_circle_nodes\); solver_matrix\.is_cyclic\(true\);",
                r"solver_matrix = DiagonalSolver<double>\(num_circle_nodes\);",
                r"solver_matrix = SymmetricTridiagonalSolver<double>\(num_radial_nodes\); solver_matrix\.is_cyclic\(false\);",
                r"solver_matrix = DiagonalSolver<double>\(num_radial_nodes\);",
                r"if\s*\(DirBC_Interior_\) return 1; else return i_theta % 2 == 0 \? 1 : 2;",
                r"if \(circle_Asc_index & 1\) \{ const int circle_tridiagonal_solver_index = circle_Asc_index / 2;",
                r"if \(radial_Asc_index & 1\) \{ const int radial_tridiagonal_solver_index = radial_Asc_index / 2;",
                r"const int num_circle_nodes = grid_\.ntheta\(\);", r"const int num_radial_nodes = length_smoother_radial;"]
        for n in need:
            if not re.search(n, b):
                raise ExtractError("%s::buildAscMatrices allocation text changed: %s" % (cls, n))
        rules.log.append(("S.allocation_text_checked", len(need)))
        def ts(name, i, n, cyc):
            t.append("  %s[%d].matrix_dimension_ = %d; %s[%d].is_cyclic_ = %d; %s[%d].cyclic_corner_element_ = 0;" % (name, i, n, name, i, cyc, name, i))
            t.append("  for (int k = 0; k < %d; k++) { %s[%d].main_diagonal_values_[k] = 0; %s[%d].sub_diagonal_values_[k] = 0; }" % (n, name, i, name, i))
        def ds(name, i, n):
            t.append("  %s[%d].matrix_dimension_ = %d; for (int k = 0; k < %d; k++) %s[%d].diagonal_values_[k] = 0;" % (name, i, n, n, name, i))
        for i in range(1, nsc):
            (ts("circle_tridiagonal_solver_", i // 2, nt, 1) if i % 2 == 1 else ds("circle_diagonal_solver_", i // 2, nt))
        for j in range(nt):
            (ts("radial_tridiagonal_solver_", j // 2, lsr, 0) if j % 2 == 1 else ds("radial_diagonal_solver_", j // 2, lsr))
        rs = [0]
        for j in range(nt):
            rs.append(rs[-1] + (1 if dirbc else (1 if j % 2 == 0 else 2)))
        t.append("  inner_boundary_circle_matrix_.rows_ = %d; inner_boundary_circle_matrix_.columns_ = %d; inner_boundary_circle_matrix_.nnz_ = %d;" % (nt, nt, rs[-1]))
        for k, v in enumerate(rs):
            t.append("  inner_boundary_circle_matrix_.row_start_indices_[%d] = %d;" % (k, v))
        t.append("  for (int s = 0; s < %d; s++) { inner_boundary_circle_matrix_.column_indices_[s] = -1; inner_boundary_circle_matrix_.values_[s] = 0; }" % rs[-1])
    return t



def parallel_assembly(cls, rules, hashes):
    """the multi-threaded branch of <cls>::buildAscMatrices (3-colour task order with the ntheta % 3 remainder rule) as sequential text:
    one admissible schedule of the assembly; race freedom of the schedule is C11's subject"""
    from vlib import Src, match_close, common_body_rewrites, sha, ExtractError
    cfg = CFG[cls]
    f = Src.get("%s/%s" % (cfg["dir"], cfg["build_file"])).function("%s::buildAscMatrices" % cls)
    body = f["body"]
    k = body.find("omp_get_max_threads() == 1")
    i = body.find("else {", k)
    if k < 0 or i < 0:
        raise ExtractError("%s::buildAscMatrices: multi-threaded assembly branch not found" % cls)
    bo = body.index("{", i)
    bc = match_close(body, bo, "{", "}")
    hashes["%s::buildAscMatrices (multi-threaded assembly branch)" % cls] = sha(body[bo:bc + 1])
    par = common_body_rewrites(body[bo:bc + 1], rules, "R")
    par, n = re.subn(r"\bbuildAsc(Circle|Radial)Section\((\w+|\d+)\)", r"%s_buildAsc\1Section__impl(\2)" % cls, par)
    rules.log.append(("C06.parallel_assembly_calls(%s)" % cls, n))
    if n < 6:
        raise ExtractError("%s::buildAscMatrices: only %d section calls in the multi-threaded branch" % (cls, n))
    return "static void %s_assemble_parallel_order(void)\n%s\n" % (cls, par)
