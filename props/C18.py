"""C18 (part) -- the number of levels setup() reports is admissible: every level but the coarsest can be coarsened
(odd number of circles, even number of angles), the coarsest grid has at least 5 x 4 nodes, smoothing levels have ntheta
divisible by 4, the level cap is respected, and the function throws exactly when no two-level hierarchy exists.

Plain CBMC on the verbatim body of GMGPolar::chooseNumberOfLevels for EVERY 32-bit nr >= 2, ntheta >= 2 and every max_levels_:
its loops are bounded by the operand width, so --unwind 33 --unwinding-assertions is complete (not a bounded stand-in).
Grid generation (uniform / anisotropic division, refinement, file round trip) is std::vector / std::set / iostream code and is
NOT decided here."""
import re
from vlib import Src, Rules, Job, ExtractError, sha


def unit(rules, hashes):
    f = Src.get("src/GMGPolar/setup.cpp").function("GMGPolar::chooseNumberOfLevels", must_params=["finestGrid"])
    hashes["GMGPolar::chooseNumberOfLevels"] = sha(f["body"])
    b = f["body"]
    b = rules.sub("C18.grid_accessors", r"\bfinestGrid\.(nr|ntheta|numberOfNodes)\(\)", r"finestGrid_\1", b, expect="+")
    # the unused complexity estimate (floating point log / ceil) is dropped: it assigns a const local that nothing reads
    b = rules.sub("C18.drop_unused_estimate", r"const\s+int\s+linear_complexity_levels\s*=[^;]*;", "", b, expect=1)
    if "linear_complexity_levels" in b:
        raise ExtractError("linear_complexity_levels is read")
    b = rules.sub("R7.std_min", r"\bstd::min\(", "v_min(", b)
    b = rules.sub("R8.throw", r"throw\s+std::(\w+)\(([^;]*)\);", r"{ g_thrown = 1; return 0; }", b, expect=1)
    if re.search(r"std::|::", b):
        raise ExtractError("unhandled construct in chooseNumberOfLevels")
    return r"""
#define assert(c) __CPROVER_assert((c), "source assert: " #c)
int nondet_int(void);
static int v_min(int a, int b) { return a < b ? a : b; }
static int finestGrid_nr, finestGrid_ntheta, finestGrid_numberOfNodes, max_levels_; static _Bool g_thrown;
static int chooseNumberOfLevels(void)
{""" + b + r"""}
void harness(void) {
    finestGrid_nr = nondet_int(); finestGrid_ntheta = nondet_int(); max_levels_ = nondet_int();
    __CPROVER_assume(2 <= finestGrid_nr && finestGrid_nr <= (1 << 30) && 2 <= finestGrid_ntheta && finestGrid_ntheta <= (1 << 30));
#ifdef SMALL_COUNTEREXAMPLE   /* replay only: a second query for a grid that can be allocated natively */
    __CPROVER_assume(finestGrid_nr <= 1200 && finestGrid_ntheta <= 2400);
#endif
    g_thrown = 0;
    const int cap0 = max_levels_;
    const int L = chooseNumberOfLevels();
    /* setup() must not rewrite the user's options: a solver object is set up again for other grids (C13) */
    __CPROVER_assert(max_levels_ == cap0, "OBL:chooseNumberOfLevels_leaves_the_level_cap_option_unchanged[C13]");
    /* a two-level hierarchy exists iff the finest grid can be coarsened once to at least 5 x 4 nodes and has ntheta % 4 == 0 */
    const _Bool two_levels_possible = (finestGrid_nr % 2 == 1) && (finestGrid_nr + 1) / 2 >= 5 &&
                                      (finestGrid_ntheta % 4 == 0) && finestGrid_ntheta / 2 >= 4 && (cap0 <= 0 || cap0 >= 2);
    __CPROVER_assert(g_thrown == !two_levels_possible, "OBL:rejects_exactly_the_grids_without_a_two_level_hierarchy");
    if (!g_thrown) {
        __CPROVER_assert(L >= 2, "OBL:at_least_two_levels");
        __CPROVER_assert(cap0 <= 0 || L <= cap0, "OBL:level_cap_respected");
        int a = finestGrid_nr, b = finestGrid_ntheta;
        for (int j = 0; j < L - 1; j++) {
            __CPROVER_assert(a % 2 == 1 && b % 2 == 0, "OBL:every_level_but_the_coarsest_can_be_coarsened(odd circles, even angles)");
            __CPROVER_assert(b % 4 == 0, "OBL:smoothing_levels_have_ntheta_divisible_by_4");
            a = (a + 1) / 2; b = b / 2;
        }
        __CPROVER_assert(a >= 5 && b >= 4, "OBL:coarsest_grid_has_at_least_5x4_nodes");
        __CPROVER_assert(L <= 31, "OBL:level_count_bounded");
    }
    __CPROVER_assert(0, "COVER:reached_end");
}
"""


def build_jobs(tier, seed):
    rules, hashes = Rules("C18"), {}
    j = Job("C18.chooseNumberOfLevels", unit(rules, hashes), "P", unwind=34, timeout=900, bounded=None,
            functions=["GMGPolar::chooseNumberOfLevels"], covers={"COVER:reached_end"})
    j.rules, j.hashes = rules, hashes
    import gridgen
    return [j] + gridgen.build_jobs(tier, seed, anisotropic=True)


EXPLANATION = (
    "Contract from the property statement enforced on the verbatim body of GMGPolar::chooseNumberOfLevels for every 32-bit grid size "
    "and level cap (loops are width-bounded: unwinding 34 with unwinding assertions is complete): the reported level count admits "
    "that many coarsenings (odd nr / even ntheta on every level but the coarsest, ntheta % 4 == 0 on smoothing levels), the coarsest "
    "grid has >= 5 x 4 nodes, the cap is respected, an exception is raised exactly when no two-level hierarchy exists. "
    "Grid generation (props/gridgen.py, Layer R, BOUNDED in the exponents nr_exp <= 4 (5), ntheta_exp, divideBy2 <= 2 (3); 0 < R0 < Rmax "
    "symbolic reals): the verbatim bodies of constructRadialDivisions (uniform branch), constructAngularDivisions, refineGrid, divideVector, "
    "initializeDistances and coarseningGrid over an array + size model of std::vector: radii strictly increasing from exactly R0 to exactly "
    "Rmax, fine radii are midpoints, angles uniform with antipodes, the grid of one bisection less is the every-second-node subgrid, spacing "
    "arrays are the coordinate differences, coarsening keeps every second node and both boundaries, every subscript within size. "
    "Anisotropic division: the refinement-window computation and its first read loop (verbatim prefix of RadialAnisotropicDivision, plain "
    "CBMC on IEEE doubles, nr_exp / anisotropic_factor listed, every refinement radius satisfying the function's own precondition): window "
    "inside the uniform division, double -> int conversions defined, log2 argument >= 1 (two defects found here were repaired: F16, F17). "
    "checkParameters (std::all_of / find_if / adjacent_find / lower_bound with lambdas translated to index loops, lambda bodies and `equals` "
    "verbatim; array sizes listed, coordinates symbolic reals): it throws exactly for arrays that are not >= 2 positive strictly increasing "
    "radii and >= 3 non-negative strictly increasing angles from 0 to 2 pi in which every angle has its antipode. "
    "NOT decided: the std::set based refinement after the window, file round trip (iostream).")


def levels_replay_cb(job, key, label, rec):
    if job.name.startswith("gridgen"):
        import gridgen
        return gridgen.replay_cb(job, key, label, rec)
    return levels_replay_cb0(job, key, label, rec)


def levels_replay_cb0(job, key, label, rec):
    """grid size and level cap of the SAT counterexample are given to the real GMGPolar::chooseNumberOfLevels"""
    import vlib
    v = vlib.last_values(rec)
    try:
        nr, nt, cap = int(v["finestGrid_nr"]), int(v["finestGrid_ntheta"]), int(v.get("cap0", v["max_levels_"]))
    except (KeyError, ValueError):
        return None
    if nr * nt > 4000000:
        # the SAT counterexample is too large to allocate: ask the verifier for a small one violating the same obligation
        import tempfile, shutil
        j2 = Job(job.name + ".small", job.c_text, "P", unwind=34, timeout=300, bounded=None, defines=["SMALL_COUNTEREXAMPLE"], covers=set())
        w = tempfile.mkdtemp(prefix="gmgverif-C18small-")
        try:
            vlib.exec_job(j2, w)
            st = (j2.results or {}).get(key, ("", ""))
            if (st[0] if isinstance(st, tuple) else st) != "FAILURE":
                return {"status": "not-attempted", "detail": "counterexample grid %d x %d too large to allocate natively and no counterexample with nr <= 1200, ntheta <= 2400 exists" % (nr, nt)}
            v2 = dict((k2, v2_) for k2, v2_ in vlib.trace_inputs(j2.traces.get(key, [])))
            nr, nt, cap = int(v2["finestGrid_nr"]), int(v2["finestGrid_ntheta"]), int(v2.get("cap0", v2["max_levels_"]))
        except Exception as e:
            return {"status": "not-attempted", "detail": "small-counterexample query failed: %r" % (e,)}
        finally:
            shutil.rmtree(w, ignore_errors=True)
    return vlib.native_driver("replay_levels", [nr, nt, cap])


def run(tier, seed, work):
    import vlib
    rep = vlib.Report("C18", tier, seed)
    jobs = build_jobs(tier, seed)
    vlib.run_jobs(jobs, work)
    import driver
    rep.absorb(jobs, replay_cb=levels_replay_cb, keep=driver.absorb_filter("C18"))   # obligations tagged [C13] belong to that check
    rep.extraction = {"rules_fired": {"chooseNumberOfLevels": jobs[0].rules.summary(), "gridgen": jobs[-1].rules.summary()}, "body_sha256_16": dict(jobs[0].hashes, **jobs[-1].hashes),
                      "dropped": ["unused local linear_complexity_levels (std::log / std::ceil)", "checkParameters / initializeLineSplitting calls of the generating constructor (order of the helper calls is checked textually)"]}
    rep.trusted = ["CBMC 6.11 SAT / z3 5.1", "32-bit int", "double treated as mathematical real in grid generation", "array + size model of std::vector<double>",
                   "pow(2, k), ceil(log2(n)) computed in integers"]
    rep.assumptions = ["2 <= nr, ntheta <= 2^30 (level choice)", "grid generation bounded in the exponents (listed in the job names)", "anisotropic_factor == 0"]
    return rep.finish("other", EXPLANATION, "cbmc unit.c --function harness --unwind 34 --unwinding-assertions | cbmc unit.c --z3 (grid generation)")


def replay(path):
    return 0
