"""C01 -- see props/driver.py"""
import driver

EXPLANATION = 'Second half of C01 only (a reported stop is true). The real text of GMGPolar::solve and GMGPolar::converged, extracted on every run, is verified against contracts over handles/tokens (Layer T): whenever solve() leaves its loop before the iteration limit, the stop test returned true (converged == documented criterion, enforced on its real body), the tested norm is the configured norm of the residual token EXPECTED_RES(u) = f - A u (or the extrapolated combination built from the fine and the injected-coarse residual) of exactly the iterate that is returned, and the relative norm is relative to the initial residual of this solve. Unbounded in iteration count, smoothing counts and (<= 8) levels; loop closed by a loop contract. The first half of C01 (mean reduction factor < 1, convergence within the budget) is a spectral statement and is NOT decided by this technique.'


def run(tier, seed, work):
    return driver.run_property("C01", tier, seed, work, ("converged", "solve"), EXPLANATION)


def replay(path):
    import json
    print(json.dumps(json.load(open(path)), indent=1)[:4000])
    return 0
