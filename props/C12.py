"""C12 -- results do not depend on the thread count (up to re-association); vector kernels equal their definition.

Decided here:
 (P) task partition: the multi-threaded branch of every give operator (3-colour / stride-2-4 task order, ntheta % 3 remainder rules),
     executed as sequential text, computes the SAME real-arithmetic result as the sequential branch / the take operator
     (obligations of C03, C04, C06 restricted to their parallel-order variants) -- together with C11 (no conflicting pair inside
     a phase) this is thread-count independence up to re-association;
 (K) the vector kernels of vector_operations.h equal their mathematical definition (Layer R, n <= 5 unwound: bounded).
 (T) thread-team semantics of the elementwise kernels and of Vector copy assignment: `parallel for` -> the loop, a `parallel` region ->
     its block once per thread with omp_get_num_threads / omp_get_thread_num bound; every element is written exactly once and the copy
     equals its source for team sizes 1..6 (n = 7, 12, 13; the 10'000 threshold of the if-clauses is generalised to 0 / never).
NOT decided: bit-for-bit reproducibility (rounding; the `reduction` clauses let the runtime choose the association order)."""
import re
from vlib import match_close, ExtractError, Src, Rules, Job, ExtractError, common_body_rewrites, sha
import units
import C03, C04, C06

KERNELS = ["assign", "add", "subtract", "linear_combination", "multiply", "dot_product", "l1_norm", "l2_norm_squared", "infinity_norm"]


def kernel_job(n):
    rules, hashes = Rules("C12"), {}
    src = Src.get("include/LinearAlgebra/vector_operations.h")
    c = [units.PRELUDE_R, "#define VERIF_THROW(w) __CPROVER_assert(0, \"OBL:size-mismatch throw unreachable for equal sizes\")",
         "static real_t absr(real_t v) { return v < 0 ? 0 - v : v; }\n#define v_abs(a) absr(a)",
         "static real_t A[%d], B[%d]; static int A_size, B_size;" % (n, n)]
    emitted = {}
    for k in KERNELS:
        f = src.function(k, occurrence=0)
        hashes["vector_operations::" + k] = sha(f["body"])
        b = common_body_rewrites(f["body"], rules, "R")
        b = rules.sub("R8.throw", r"throw\s+std::(\w+)\(([^;]*)\);", r'VERIF_THROW("\1");', b)
        b = rules.sub("C12.size_t", r"\bstd::size_t\b", "int", b)
        b = rules.sub("C12.T", r"\bT\b", "real_t", b)
        names = [p[1] for p in f["params"]]
        vecs = [p[1] for p in f["params"] if "Vector" in p[0]]
        scal = [p[1] for p in f["params"] if "Vector" not in p[0]]
        # R3: first vector parameter denotes A, second B
        for v, g in zip(vecs, ("A", "B")):
            b = re.sub(r"\b%s\b" % v, g, b)
        ret = "real_t" if f["ret"].split()[-1] == "T" else "void"
        c.append("static %s k_%s(%s)\n{%s}\n" % (ret, k, ", ".join("const real_t " + s for s in scal) or "void", b))
        emitted[k] = (ret, scal)
    h = ["static real_t A0[%d], B0[%d];" % (n, n),
         "static void load(void) { for (int i = 0; i < %d; i++) { A[i] = A0[i]; B[i] = B0[i]; } }" % n, "void harness(void) {",
         "  A_size = %d; B_size = %d; real_t al = nondet_real(), be = nondet_real();" % (n, n)]
    h += ["  A0[%d] = nondet_real(); B0[%d] = nondet_real();" % (i, i) for i in range(n)]
    def each(fmt):
        return " && ".join(fmt % ((i,) * fmt.count("%d")) for i in range(n))
    h += ["  load(); k_assign(al);", "  __CPROVER_assert(%s, \"OBL:assign_is_x_i:=value\");" % each("A[%d] == al"),
          "  load(); k_add();", "  __CPROVER_assert(%s, \"OBL:add_is_x_i+y_i\");" % each("A[%d] == A0[%d] + B0[%d]"),
          "  load(); k_subtract();", "  __CPROVER_assert(%s, \"OBL:subtract_is_x_i-y_i\");" % each("A[%d] == A0[%d] - B0[%d]"),
          "  load(); k_linear_combination(al, be);", "  __CPROVER_assert(%s, \"OBL:linear_combination_is_alpha*x_i+beta*y_i\");" % each("A[%d] == al * A0[%d] + be * B0[%d]"),
          "  load(); k_multiply(al);", "  __CPROVER_assert(%s, \"OBL:multiply_is_alpha*x_i\");" % each("A[%d] == al * A0[%d]"),
          "  load(); __CPROVER_assert(k_dot_product() == %s, \"OBL:dot_product_is_sum_x_i*y_i\");" % " + ".join("A0[%d] * B0[%d]" % (i, i) for i in range(n)),
          "  load(); __CPROVER_assert(k_l1_norm() == %s, \"OBL:l1_norm_is_sum_abs\");" % " + ".join("absr(A0[%d])" % i for i in range(n)),
          "  load(); __CPROVER_assert(k_l2_norm_squared() == %s, \"OBL:l2_norm_squared_is_sum_squares\");" % " + ".join("A0[%d] * A0[%d]" % (i, i) for i in range(n)),
          "  load(); { const real_t m = k_infinity_norm(); __CPROVER_assert((%s) && (%s), \"OBL:infinity_norm_is_max_abs\"); }" % (
              each("m >= absr(A0[%d])"), " || ".join("m == absr(A0[%d])" % i for i in range(n))),
          "  __CPROVER_assert(al != al, \"COVER:reached_end\");", "}"]
    text = "\n".join(c) + "\n" + "\n".join(h)
    j = Job("C12.kernels[n=%d]" % n, text, "R", unwind=n + 2, timeout=600, bounded="unwind: vector length fixed n=%d, entries symbolic reals" % n,
            functions=["vector_operations.h::" + k for k in KERNELS], covers={"COVER:reached_end"}, split=r"^OBL:", split_chunk=3, split_timeout=200)
    j.rules, j.hashes = rules, hashes
    return j


# ---- thread-team semantics at the parallel threshold: elementwise kernels and Vector copy assignment ----------------------------
TEAM_PRELUDE = r"""
#define NMAX @NMAX@
int nondet_int(void);
typedef long elem_t;      /* element values are opaque tokens here: only WHICH elements are read / written and from where matters */
static elem_t DST[NMAX], SRC[NMAX]; static int DST_size, SRC_size;
static int visits[NMAX];  /* ghost: number of writes to DST[i] */
static int g_team;        /* omp: number of threads of a parallel region whose if-clause holds */
static int g_thresh;      /* generalised size threshold of the if-clauses */
static _Bool g_oob;       /* ghost: some access was outside its vector (accumulated: one obligation per kernel run instead of one per access) */
static int CLAMP(int i, int n) { if (i < 0 || i >= n) { g_oob = 1; return 0; } return i; }
#define W(i) (visits[CLAMP((i), DST_size)]++, CLAMP((i), DST_size))
#define R(i) CLAMP((i), SRC_size)
/* std::copy_n(src + a, n, dst + b) */
#define COPY_N(soff, n, doff) do { for (int q_ = 0; q_ < (n); q_++) DST[W((doff) + q_)] = SRC[R((soff) + q_)]; } while (0)
"""


def team_semantics(b, rules, fname):
    """OpenMP constructs of a kernel -> their sequential meaning:
    `parallel for [if (c)]` + loop  -> the loop (iterations are independent: race freedom is C11's obligation);
    `parallel [if (c)]` + block     -> the block executed once per thread of the team, team = (c) ? g_team : 1, with
                                       omp_get_num_threads() / omp_get_thread_num() bound to the team size / the thread index."""
    out, n_for, n_par = b, 0, 0
    while True:
        m = re.search(r"^[ \t]*#[ \t]*pragma[ \t]+omp[ \t]+parallel\b([^\n]*)$", out, re.M)
        if not m:
            break
        clauses = m.group(1).strip()
        if clauses.startswith("for"):
            out = out[:m.start()] + out[m.end():]
            n_for += 1
            continue
        cm = re.search(r"\bif\s*\(", clauses)
        cond = "1"
        if cm:
            po = cm.end() - 1
            cond = clauses[po + 1:match_close(clauses, po, "(", ")")]
            # the size threshold of the if-clause (10'000) is generalised to g_thresh, which the harness sets to 0 (region always
            # parallel) and to a huge value (never): a vector of 10 001 elements is beyond what CBMC's symbolic execution can run
            cond, k_ = re.subn(r"\b\d[\d']{3,}\b", "g_thresh", cond)
            rules.log.append(("C12.threshold_generalised(%s)" % fname, k_))
        bo = out.index("{", m.end())
        if out[m.end():bo].strip():
            raise ExtractError("%s: parallel region is not a block" % fname)
        bc = match_close(out, bo, "{", "}")
        body = out[bo + 1:bc]
        body = re.sub(r"\bomp_get_num_threads\(\)", "team_", body)
        body = re.sub(r"\bomp_get_thread_num\(\)", "tid_", body)
        out = out[:m.start()] + "{ const int team_ = (%s) ? g_team : 1; for (int tid_ = 0; tid_ < team_; tid_++) {%s} }" % (cond, body) + out[bc + 1:]
        n_par += 1
    if re.search(r"#\s*pragma\s+omp", out):
        raise ExtractError("%s: unsupported OpenMP construct" % fname)
    rules.log.append(("C12.team_semantics(%s: parallel for %d, parallel region %d)" % (fname, n_for, n_par), n_for + n_par))
    return out


def wrap_rw(text, dst, src):
    """DST-like vector `dst`: subscripts followed by an assignment operator are writes (W), all others reads of the same vector are
    ignored here; `src` subscripts are reads (R)"""
    from vlib import match_close as mc
    out, pos = [], 0
    pat = re.compile(r"\b(%s)\s*\[" % "|".join(map(re.escape, [dst] + ([src] if src else []))))
    while True:
        m = pat.search(text, pos)
        if not m:
            out.append(text[pos:])
            break
        bo = m.end() - 1
        bc = mc(text, bo, "[", "]")
        inner = text[bo + 1:bc]
        after = text[bc + 1:bc + 6]
        is_write = re.match(r"\s*(=(?!=)|\+=|-=|\*=|/=)", after) is not None
        out.append(text[pos:m.start()])
        if m.group(1) == dst:
            out.append("DST[%s]" % (("W(%s)" % inner) if is_write else inner))
        else:
            out.append("SRC[R(%s)]" % inner)
        pos = bc + 1
    return "".join(out)


def team_job(n, teams=(1, 2, 3, 4)):
    rules, hashes = Rules("C12"), {}
    c = [TEAM_PRELUDE.replace("@NMAX@", str(n + 2))]
    calls = []
    # Vector<T>::operator=(const Vector&)
    f = Src.get("include/LinearAlgebra/vector.h").function("Vector<T>::operator=", must_params=["other"], occurrence=0)
    if "const Vector" not in f["params_text"]:
        raise ExtractError("Vector copy assignment not found")
    hashes["Vector::operator=(const Vector&)"] = sha(f["body"])
    b = team_semantics(f["body"], rules, "Vector::operator=")
    b = rules.sub("C12.self_assignment", r"\bthis\s*==\s*&other\b", "0 /* distinct objects */", b, expect=1)
    b = rules.sub("C12.return_self", r"return\s+\*this;", "return;", b, expect="+")
    b = rules.sub("C12.realloc", r"\bvalues_\s*=\s*std::make_unique<T\[\]>\(size_\);", "DST_size = size_;", b, expect=1)
    b = rules.sub("C12.copy_n", r"std::copy_n\(other\.values_\.get\(\)\s*\+\s*([^,]+),\s*([^,]+),\s*values_\.get\(\)\s*\+\s*([^;]+)\);", r"COPY_N(\1, \2, \3);", b)
    b = re.sub(r"\bother\.values_\b", "SRCV", b)
    b = re.sub(r"\bother\.size_\b", "SRC_size", b)
    b = wrap_rw(wrap_rw(b, "values_", None).replace("DST[", "DSTV["), "SRCV", None).replace("DST[", "SRC[R(").replace("DSTV[", "DST[")
    b = re.sub(r"SRC\[R\(([^\]]*)\]", r"SRC[R(\1)]", b)
    b = common_body_rewrites(b, rules, "I")
    b = re.sub(r"\bsize_\b", "DST_count", b)
    if re.search(r"std::|\bvalues_\b|\bother\b", b):
        raise ExtractError("Vector copy assignment: unhandled construct `%s`" % re.search(r"std::\w+|\bvalues_\b|\bother\b", b).group(0))
    c.append("static int DST_count;\nstatic void vector_copy_assign(void)\n{%s}\n" % b)
    calls.append(("Vector::operator=(const Vector&)", "DST_count = nondet_int(); __CPROVER_assume(DST_count == N || DST_count == 0); vector_copy_assign();", "DST_count == N && "))
    # elementwise kernels of vector_operations.h
    src = Src.get("include/LinearAlgebra/vector_operations.h")
    for k, dst, srcv in (("assign", "lhs", None), ("add", "result", "x"), ("subtract", "result", "x"), ("linear_combination", "x", "y"), ("multiply", "x", None)):
        f = src.function(k, occurrence=0)
        hashes["vector_operations::" + k] = sha(f["body"])
        b = team_semantics(f["body"], rules, k)
        b = rules.sub("R8.throw", r"throw\s+std::(\w+)\(([^;]*)\);", "return;", b)
        b = rules.sub("C12.size_t", r"\bstd::size_t\b", "int", b)
        b = re.sub(r"\b%s\.size\(\)" % dst, "DST_size", b)
        if srcv:
            b = re.sub(r"\b%s\.size\(\)" % srcv, "SRC_size", b)
        b = wrap_rw(b, dst, srcv)
        b = common_body_rewrites(b, rules, "I")
        b = re.sub(r"\b(value|alpha|beta)\b", "((elem_t)1)", b)
        b = b.replace("real_t", "elem_t")
        if re.search(r"std::|\.size\(", b):
            raise ExtractError("kernel %s: unhandled construct" % k)
        c.append("static void kernel_%s(void)\n{%s}\n" % (k, b))
        calls.append(("vector_operations::" + k, "kernel_%s();" % k, ""))
    h = ["#define N %d" % n, "static void reset(void) { g_oob = 0; DST_size = N; SRC_size = N; for (int i = 0; i < N; i++) { visits[i] = 0; DST[i] = -1; SRC[i] = 7 * (elem_t)i + 3; } }",
         "static _Bool once(void) { for (int i = 0; i < N; i++) if (visits[i] != 1) return 0; return 1; }",
         "static _Bool copied(void) { for (int i = 0; i < N; i++) if (DST[i] != SRC[i]) return 0; return 1; }",
         "void harness(void) {"]
    # every input is concrete (lengths, team size, element tokens): CBMC's symbolic execution runs the kernels; one obligation per run
    for (t, th) in [(t_, th_) for t_ in teams for th_ in (0, 1000000)]:
        if th and t != teams[0]:
            continue        # region never parallel: the team size is irrelevant, one run suffices
        for (name, call, pre) in calls:
            variants = [("DST_count = N;", "same size"), ("DST_count = 0;", "reallocating")] if name.startswith("Vector::operator=") else [("", "")]
            for (init, vn) in variants:
                tag = "%s, %s%s" % (name, ("team=%d" % t) if not th else "if-clause false", (", " + vn) if vn else "")
                h.append("  reset(); g_team = %d; g_thresh = %d; %s %s" % (t, th, init, call.split("; ")[-1] if name.startswith("Vector::operator=") else call))
                h.append("  __CPROVER_assert(!g_oob, \"OBL:kernel accesses stay inside the vectors [%s]\");" % tag)
                h.append("  __CPROVER_assert(once(), \"OBL:every element is written exactly once [%s]\");" % tag)
                if name.startswith("Vector::operator="):
                    h.append("  __CPROVER_assert(copied(), \"OBL:copy assignment makes every element equal to the source [%s]\");" % tag)
    h += ["  __CPROVER_assert(0, \"COVER:reached_end\");", "}"]
    j = Job("C12.team[n=%d]" % n, "\n".join(c + h), "P", unwind=n + 3, timeout=900,
            bounded="unwind %d; vector length n = %d, size threshold of the if-clauses generalised (0 and 10^6), team size in %s; concrete element tokens (the kernels are executed)" % (n + 3, n, list(teams)),
            functions=["Vector::operator=(const Vector&)"] + ["vector_operations.h::" + k for k in ("assign", "add", "subtract", "linear_combination", "multiply")],
            covers={"COVER:reached_end"}, extra=["--max-field-sensitivity-array-size", "20000"])
    j.rules, j.hashes = rules, hashes
    return j


def keep_parallel(label):
    tags_ok = ("give_parallel_branch_eq_take" in label) or ("matrix_row_equals_operator_row" in label) or label.startswith("OBL:exact_solution") or \
              label.startswith("OBL:residual_vanishes") or label.startswith("OBL:the_sweep") or ("_is_" in label and label.startswith("OBL:")) or \
              label.startswith("COVER:") or label.startswith(("OBL:every element is written", "OBL:copy assignment makes", "OBL:kernel accesses stay"))
    return tags_ok


def build_jobs(tier, seed):
    jobs = [kernel_job(3), kernel_job(5), team_job(7), team_job(12), team_job(13, teams=(1, 2, 3, 4, 5, 6))]
    shapes = [(6, 6, 3), (5, 8, 2), (5, 4, 2)] if tier == "quick" else [(6, 6, 3), (5, 8, 2), (5, 4, 2), (6, 12, 2), (7, 10, 4)]
    for (nr, nt, nsc) in shapes:
        jobs += C03.jobs_for(nr, nt, nsc, 0)                                # give (sequential + parallel order) vs take
    jobs += C04.jobs_for("Give", 5, 6, 3, 0, order="parallel")
    jobs += [j for j in C06.jobs_for("SmootherGive", 5, 4, 2, 0) if "ForLoop" in j.name]
    return jobs


EXPLANATION = (
    "Thread-count independence is decided at the level of TASKS: the multi-threaded branch of ResidualGive::computeResidual, "
    "DirectSolverGiveCustomLU::buildSolverMatrix and SmootherGive::smoothingForLoop (real text, pragmas removed = one admissible "
    "schedule; C11 shows that the order inside a phase cannot matter) yields exactly the real-arithmetic result of the take operator / "
    "the operator rows / the line contracts, on shapes with ntheta % 3 in {0, 1, 2} and both circle-count parities. Vector kernels: "
    "Layer R, lengths 3 and 5 unwound (bounded), each kernel equals its mathematical definition. Bit-for-bit reproducibility and the "
    "association order of OpenMP reductions are rounding properties and are NOT decided; threads_per_level_ (floor/pow) not covered.")


def run(tier, seed, work):
    import vlib
    rep = vlib.Report("C12", tier, seed)
    jobs = build_jobs(tier, seed)
    vlib.run_jobs(jobs, work)
    ops_cb = vlib.ops_replay_cb("givetake")

    def replay_cb(job, key, label, rec):
        if job.name.startswith("C12.team"):
            return vlib.native_driver("replay_vector_copy", [])
        return ops_cb(job, key, label, rec)
    rep.absorb(jobs, replay_cb=replay_cb, keep=lambda d: (not d.startswith("OBL:")) or keep_parallel(d))
    rep.extraction = {"rules_fired": jobs[0].rules.summary(), "body_sha256_16": jobs[0].hashes}
    rep.trusted = ["double treated as mathematical real", "CBMC 6.11 + z3 5.1", "extractor rules", "C11 for the order inside a phase"]
    rep.assumptions = ["shape-bounded", "kernel length bounded (3, 5)", "OpenMP `reduction` clauses race-free by construction (trusted)"]
    return rep.finish("other", EXPLANATION, "cbmc unit.c --function harness --z3 --unwind N --unwinding-assertions [--property P --slice-formula]")


def replay(path):
    return 0
