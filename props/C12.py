"""C12 -- results do not depend on the thread count (up to re-association); vector kernels equal their definition.

Decided here:
 (P) task partition: the multi-threaded branch of every give operator (3-colour / stride-2-4 task order, ntheta % 3 remainder rules),
     executed as sequential text, computes the SAME real-arithmetic result as the sequential branch / the take operator
     (obligations of C03, C04, C06 restricted to their parallel-order variants) -- together with C11 (no conflicting pair inside
     a phase) this is thread-count independence up to re-association;
 (K) the vector kernels of vector_operations.h equal their mathematical definition (Layer R, n <= 5 unwound: bounded).
NOT decided: bit-for-bit reproducibility (rounding; the `reduction` clauses let the runtime choose the association order)."""
import re
from vlib import Src, Rules, Job, ExtractError, common_body_rewrites, sha
import units
import C03, C04, C06

KERNELS = ["assign", "add", "subtract", "linear_combination", "multiply", "dot_product", "l1_norm", "l2_norm_squared", "infinity_norm"]


def kernel_job(n):
    rules, hashes = Rules("C12"), {}
    src = Src.get("include/LinearAlgebra/vector_operations.h")
    c = [units.PRELUDE_R, "#define VERIF_THROW(w) __CPROVER_assert(0, \"OBL:size-mismatch throw unreachable for equal sizes\")",
         "static real_t absr(real_t v) { return v < 0 ? 0 - v : v; }\n#define v_abs(a) absr(a)",
         "static real_t A[%d], B[%d]; static int A_size, B_size;" % (n, n)]
    emitted = {}
    for k in KERNELS:
        f = src.function(k, occurrence=0)
        hashes["vector_operations::" + k] = sha(f["body"])
        b = common_body_rewrites(f["body"], rules, "R")
        b = rules.sub("R8.throw", r"throw\s+std::(\w+)\(([^;]*)\);", r'VERIF_THROW("\1");', b)
        b = rules.sub("C12.size_t", r"\bstd::size_t\b", "int", b)
        b = rules.sub("C12.T", r"\bT\b", "real_t", b)
        names = [p[1] for p in f["params"]]
        vecs = [p[1] for p in f["params"] if "Vector" in p[0]]
        scal = [p[1] for p in f["params"] if "Vector" not in p[0]]
        # R3: first vector parameter denotes A, second B
        for v, g in zip(vecs, ("A", "B")):
            b = re.sub(r"\b%s\b" % v, g, b)
        ret = "real_t" if f["ret"].split()[-1] == "T" else "void"
        c.append("static %s k_%s(%s)\n{%s}\n" % (ret, k, ", ".join("const real_t " + s for s in scal) or "void", b))
        emitted[k] = (ret, scal)
    h = ["static real_t A0[%d], B0[%d];" % (n, n),
         "static void load(void) { for (int i = 0; i < %d; i++) { A[i] = A0[i]; B[i] = B0[i]; } }" % n, "void harness(void) {",
         "  A_size = %d; B_size = %d; real_t al = nondet_real(), be = nondet_real();" % (n, n)]
    h += ["  A0[%d] = nondet_real(); B0[%d] = nondet_real();" % (i, i) for i in range(n)]
    def each(fmt):
        return " && ".join(fmt % ((i,) * fmt.count("%d")) for i in range(n))
    h += ["  load(); k_assign(al);", "  __CPROVER_assert(%s, \"OBL:assign_is_x_i:=value\");" % each("A[%d] == al"),
          "  load(); k_add();", "  __CPROVER_assert(%s, \"OBL:add_is_x_i+y_i\");" % each("A[%d] == A0[%d] + B0[%d]"),
          "  load(); k_subtract();", "  __CPROVER_assert(%s, \"OBL:subtract_is_x_i-y_i\");" % each("A[%d] == A0[%d] - B0[%d]"),
          "  load(); k_linear_combination(al, be);", "  __CPROVER_assert(%s, \"OBL:linear_combination_is_alpha*x_i+beta*y_i\");" % each("A[%d] == al * A0[%d] + be * B0[%d]"),
          "  load(); k_multiply(al);", "  __CPROVER_assert(%s, \"OBL:multiply_is_alpha*x_i\");" % each("A[%d] == al * A0[%d]"),
          "  load(); __CPROVER_assert(k_dot_product() == %s, \"OBL:dot_product_is_sum_x_i*y_i\");" % " + ".join("A0[%d] * B0[%d]" % (i, i) for i in range(n)),
          "  load(); __CPROVER_assert(k_l1_norm() == %s, \"OBL:l1_norm_is_sum_abs\");" % " + ".join("absr(A0[%d])" % i for i in range(n)),
          "  load(); __CPROVER_assert(k_l2_norm_squared() == %s, \"OBL:l2_norm_squared_is_sum_squares\");" % " + ".join("A0[%d] * A0[%d]" % (i, i) for i in range(n)),
          "  load(); { const real_t m = k_infinity_norm(); __CPROVER_assert((%s) && (%s), \"OBL:infinity_norm_is_max_abs\"); }" % (
              each("m >= absr(A0[%d])"), " || ".join("m == absr(A0[%d])" % i for i in range(n))),
          "  __CPROVER_assert(al != al, \"COVER:reached_end\");", "}"]
    text = "\n".join(c) + "\n" + "\n".join(h)
    j = Job("C12.kernels[n=%d]" % n, text, "R", unwind=n + 2, timeout=600, bounded="unwind: vector length fixed n=%d, entries symbolic reals" % n,
            functions=["vector_operations.h::" + k for k in KERNELS], covers={"COVER:reached_end"}, split=r"^OBL:", split_chunk=3, split_timeout=200)
    j.rules, j.hashes = rules, hashes
    return j


def keep_parallel(label):
    tags_ok = ("give_parallel_branch_eq_take" in label) or ("matrix_row_equals_operator_row" in label) or label.startswith("OBL:exact_solution") or \
              label.startswith("OBL:residual_vanishes") or label.startswith("OBL:the_sweep") or ("_is_" in label and label.startswith("OBL:")) or \
              label.startswith("COVER:")
    return tags_ok


def build_jobs(tier, seed):
    jobs = [kernel_job(3), kernel_job(5)]
    shapes = [(6, 6, 3), (5, 8, 2), (5, 4, 2)] if tier == "quick" else [(6, 6, 3), (5, 8, 2), (5, 4, 2), (6, 12, 2), (7, 10, 4)]
    for (nr, nt, nsc) in shapes:
        jobs += C03.jobs_for(nr, nt, nsc, 0)                                # give (sequential + parallel order) vs take
    jobs += C04.jobs_for("Give", 5, 6, 3, 0, order="parallel")
    jobs += [j for j in C06.jobs_for("SmootherGive", 5, 4, 2, 0) if "ForLoop" in j.name]
    return jobs


EXPLANATION = (
    "Thread-count independence is decided at the level of TASKS: the multi-threaded branch of ResidualGive::computeResidual, "
    "DirectSolverGiveCustomLU::buildSolverMatrix and SmootherGive::smoothingForLoop (real text, pragmas removed = one admissible "
    "schedule; C11 shows that the order inside a phase cannot matter) yields exactly the real-arithmetic result of the take operator / "
    "the operator rows / the line contracts, on shapes with ntheta % 3 in {0, 1, 2} and both circle-count parities. Vector kernels: "
    "Layer R, lengths 3 and 5 unwound (bounded), each kernel equals its mathematical definition. Bit-for-bit reproducibility and the "
    "association order of OpenMP reductions are rounding properties and are NOT decided; threads_per_level_ (floor/pow) not covered.")


def run(tier, seed, work):
    import vlib
    rep = vlib.Report("C12", tier, seed)
    jobs = build_jobs(tier, seed)
    vlib.run_jobs(jobs, work)
    rep.absorb(jobs, replay_cb=vlib.ops_replay_cb("givetake"), keep=lambda d: (not d.startswith("OBL:")) or keep_parallel(d))
    rep.extraction = {"rules_fired": jobs[0].rules.summary(), "body_sha256_16": jobs[0].hashes}
    rep.trusted = ["double treated as mathematical real", "CBMC 6.11 + z3 5.1", "extractor rules", "C11 for the order inside a phase"]
    rep.assumptions = ["shape-bounded", "kernel length bounded (3, 5)", "OpenMP `reduction` clauses race-free by construction (trusted)"]
    return rep.finish("other", EXPLANATION, "cbmc unit.c --function harness --z3 --unwind N --unwinding-assertions [--property P --slice-formula]")


def replay(path):
    return 0
