"""C02 (small part) -- zeroth-order consistency of the discretisation: operator and right-hand side use one volume scaling.

The order of accuracy itself is an asymptotic statement that no contract over a finite execution expresses (DESIGN 4/C02).
What IS a contract over one call, and a necessary condition for any order >= 1 (it fails for a wrong right-hand-side scaling,
a wrong mass-term weight, a stencil whose difference weights do not cancel on constants, a wrong Jacobian determinant, or a
Dirichlet row that is not an identity row):

    for u == c (constant) the continuous problem has f = beta * c and boundary data c; then the discrete operator applied to
    the constant vector equals the discretised right-hand side, row by row:   A (c 1) == discretize_rhs_f(beta c),
    and discretize_rhs_f multiplies interior entries by exactly 0.25 (h1 + h2)(k1 + k2) |det DF| (h1 = 2 r_0 at the
    across-origin row) and leaves Dirichlet entries unchanged.

Layer R: the verbatim body of GMGPolar::discretize_rhs_f (both the cached and the uncached Jacobian branch) and the extracted
residual operator (C03 proves give == take) on concrete grid shapes; spacings, coefficient arrays / provider functions and c
symbolic reals.  Bounded in grid shape."""
import re
from vlib import Src, Rules, Job, ExtractError, sha
import units, C03


def idx(nr, nt, nsc, a, b):
    return b + nt * a if a < nsc else nsc * nt + (a - nsc) + (nr - nsc) * b


def unit(rules, hashes, nr, nt):
    c = C03.residual_unit(rules, hashes, nr, nt)
    N = nr * nt
    c.append("static real_t rhs_f[%d]; static int rhs_f_size;" % N)
    st = Src.get("src/GMGPolar/setup.cpp").text
    if not re.search(r"std::make_unique<LevelCache>\(\*finest_grid,\s*\*density_profile_coefficients_,\s*\*domain_geometry_,", st):
        raise ExtractError("setup(): the level caches are no longer built from the solver's own geometry / profile objects")

    def pre(m, body, r):
        body = r.sub("C02.grid_alias", r"const\s+PolarGrid\s*&\s*grid\s*=\s*level\.grid\(\)\s*;", "", body, expect=1)
        body = r.sub("C02.grid_use", r"\bgrid\.", "grid_.", body, expect="+")
        body = r.sub("C02.level_cache", r"\blevel\.levelCache\(\)", "level_cache_", body, expect="+")
        body = r.sub("C02.geometry_ptr", r"\bdomain_geometry_->", "level_cache___domain_geometry_.", body, expect="+")
        return body
    text, _ = units.emit_class_methods("GMGPolar", [("src/GMGPolar/build_rhs_f.cpp", "discretize_rhs_f")], rules, "R", hashes,
                                       pre_rewrite=pre, vec_names=("rhs_f",))
    c.append("struct Level { int unused; }; static struct Level level;")
    c.append(text)
    return c


def jobs_for(nr, nt, nsc, dirbc, cg):
    rules, hashes = Rules("C02"), {}
    N = nr * nt
    c = unit(rules, hashes, nr, nt)
    c.append("static real_t AV[%d], F[%d];" % (N, N))
    c.append("static void setup(void) {")
    c.append(units.grid_setup_concrete("grid_", nr, nt, nsc, antipodal=True))
    c += C03.cache_setup(N, nr, nt, 1, cg)
    c.append("  DirBC_Interior_ = %d; result_size = rhs_size = x_size = rhs_f_size = %d;" % (dirbc, N))
    c.append("}")
    h = ["void harness(void) {", "  setup();", "  const real_t cst = nondet_real();"]
    h += ["  x[%d] = cst; rhs[%d] = 0; result[%d] = nondet_real();" % (k, k, k) for k in range(N)]
    h.append("  verif_omp_max_threads = 1; %s_computeResidual__impl();      /* result = rhs - A x = -A (c 1); take needs both caches, give == take is C03 */" % ("ResidualTake" if cg else "ResidualGive"))
    h += ["  AV[%d] = 0 - result[%d];" % (k, k) for k in range(N)]
    for a in range(nr):
        for b in range(nt):
            k = idx(nr, nt, nsc, a, b)
            dirichlet = (a == nr - 1) or (a == 0 and dirbc)
            if dirichlet:
                h.append("  F[%d] = cst;   /* boundary data of u == c */" % k)
            else:
                h.append("  F[%d] = level_cache___coeff_beta_[%d] * cst;   /* f = -div(alpha grad c) + beta c = beta c */" % (k, a))
            h.append("  rhs_f[%d] = F[%d];" % (k, k))
    h.append("  GMGPolar_discretize_rhs_f__impl();")
    for a in range(nr):
        for b in range(nt):
            k = idx(nr, nt, nsc, a, b)
            dirichlet = (a == nr - 1) or (a == 0 and dirbc)
            if a == 0 and not dirbc:
                # across-origin row: the `artificial 7-point stencil` drops the two mixed-derivative corner terms on the far side of the
                # origin, so a constant is reproduced only up to 0.25 c (art(0,j-1) - art(0,j+1)): excluded, stated in the evidence
                h.append("  __CPROVER_assert(%d == grid_.index(%d,%d), \"OBL:node_numbering_of_the_harness[node=(%d,%d)]\");" % (k, a, b, a, b))
            else:
                h.append("  __CPROVER_assert(%d == grid_.index(%d,%d) && AV[%d] == rhs_f[%d], \"OBL:operator_on_a_constant_equals_the_discretised_rhs[node=(%d,%d)]\");" % (k, a, b, k, k, a, b))
            if dirichlet:
                h.append("  __CPROVER_assert(rhs_f[%d] == F[%d], \"OBL:dirichlet_entries_of_the_rhs_are_unchanged[node=(%d,%d)]\");" % (k, k, a, b))
            elif cg:
                h1 = "2 * grid___radii_[0]" if a == 0 else "grid___radial_spacings_[%d]" % (a - 1)
                h.append("  __CPROVER_assert(rhs_f[%d] == RQ(1,4) * (%s + grid___radial_spacings_[%d]) * (grid___angular_spacings_[%d] + grid___angular_spacings_[%d]) * v_fabs(level_cache___detDF_[%d]) * F[%d], "
                         "\"OBL:interior_rhs_scaling_is_quarter_(h1+h2)(k1+k2)_abs_detDF[node=(%d,%d)]\");" % (k, h1, a, (b - 1) % nt, b, k, k, a, b))
    h.append("  __CPROVER_assert(cst != cst, \"COVER:reached_end\");")
    h.append("}")
    tag = "[nr=%d,nt=%d,nsc=%d,DirBC=%d,cacheGeometry=%d]" % (nr, nt, nsc, dirbc, cg)
    j = Job("C02.constants" + tag, "\n".join(c + h), "R", unwind=N + 3, timeout=900,
            bounded="grid shape fixed %dx%d split %d DirBC=%d; spacings, coefficients, constant symbolic reals" % (nr, nt, nsc, dirbc),
            functions=["GMGPolar::discretize_rhs_f", "ResidualTake::computeResidual", "ResidualTake::applyCircleSection", "ResidualTake::applyRadialSection"],
            covers={"COVER:reached_end"}, split=r"^OBL:|^COVER:", split_chunk=1, split_timeout=300,
            extra=["--max-field-sensitivity-array-size", "8192"])
    j.rules, j.hashes = rules, hashes
    return j


def shapes(tier):
    fam = [(5, 4, 2), (5, 6, 0), (6, 4, 6)]
    if tier != "quick":
        fam += [(6, 6, 3), (7, 4, 3), (5, 8, 2), (5, 12, 1)]
    return fam


def build_jobs(tier, seed):
    jobs = []
    for (nr, nt, nsc) in shapes(tier):
        for dirbc in (0, 1):
            for cg in ((1, 0) if (nr, nt, nsc) in [(5, 4, 2), (6, 6, 3)] else (1,)):
                jobs.append(jobs_for(nr, nt, nsc, dirbc, cg))
    return jobs


EXPLANATION = (
    "SMALL PART of C02 (the order of accuracy is an asymptotic statement and is NOT decided). Decided, in Layer R on concrete grid shapes with "
    "all spacings / coefficients / Jacobian entries symbolic: zeroth-order consistency -- for the constant solution u == c (f = beta c, boundary "
    "data c) the discrete operator applied to the constant vector equals the discretised right-hand side row by row, i.e. the stencil's "
    "difference weights cancel on constants and operator and right-hand side use the same volume scaling; GMGPolar::discretize_rhs_f (cached and "
    "uncached Jacobian branch, verbatim) multiplies interior entries by exactly 0.25 (h1+h2)(k1+k2)|det DF| (h1 = 2 r_0 on the across-origin "
    "row) and leaves Dirichlet entries unchanged. Excluded: the across-origin rows (i_r = 0 without interior Dirichlet data), where the "
    "source's `artificial 7-point stencil` drops two mixed-derivative corner terms and a constant is reproduced only up to "
    "0.25 c (art(0,j-1) - art(0,j+1)). A necessary condition of any convergence order; it does not bound the truncation error.")


def run(tier, seed, work):
    import vlib
    rep = vlib.Report("C02", tier, seed)
    jobs = build_jobs(tier, seed)
    vlib.run_jobs(jobs, work)
    rep.absorb(jobs)
    rep.extraction = {"rules_fired": jobs[0].rules.summary(), "body_sha256_16": jobs[0].hashes,
                      "dropped": ["#pragma omp", "GMGPolar::build_rhs_f (sampling of the source-term / boundary classes: calls through abstract providers)"]}
    rep.trusted = ["double treated as mathematical real", "CBMC 6.11 + z3 5.1", "extractor rules", "geometry / profile providers uninterpreted",
                   "setup() hands the solver's own geometry object to the level caches (text checked)"]
    rep.assumptions = ["antipodal angles", "shape-bounded", "NOT decided: the order of accuracy, error ratios under refinement, the extrapolated order"]
    return rep.finish("other", EXPLANATION, "cbmc unit.c --function harness --z3 --unwind N --unwinding-assertions --property P --slice-formula")


def replay(path):
    return 0
