"""FMG interpolation weights (C09, first half): Layer R, whole operator Interpolation::applyFMGInterpolation on concrete grid pairs."""
import re
from vlib import Src, Rules, Job, ExtractError, common_body_rewrites, sha
import units
import C08


def fmg_unit(rules, hashes, nr, nt, nsc_f, nsc_c):
    ncr, nct = (nr + 1) // 2, nt // 2
    NF, NC = nr * nt, ncr * nct
    c = [units.PRELUDE_R, units.POLARGRID_STRUCT, C08.LEVEL_PRELUDE]
    c.append("static real_t result[%d], x[%d]; static int result_size, x_size;" % (NF, NF))
    c.append(units.polargrid_instance("fineGrid", "R", rules, nr, nt, hashes))
    c.append(units.polargrid_instance("coarseGrid", "R", rules, ncr, nct, hashes))
    src = Src.get("src/Interpolation/fmg_interpolation.cpp")
    mt = src.macro("FINE_NODE_FMG_INTERPOLATION")
    hashes["FINE_NODE_FMG_INTERPOLATION"] = sha(mt)
    c.append(common_body_rewrites(mt, rules, "R"))
    f = src.function("Interpolation::applyFMGInterpolation", must_params=["fromLevel", "toLevel", "result", "x"])
    hashes["Interpolation::applyFMGInterpolation"] = sha(f["body"])
    body = f["body"]
    body = rules.sub("R2.alias.coarseGrid", r"const\s+PolarGrid\s*&\s*coarseGrid\s*=\s*fromLevel\.grid\(\)\s*;", "", body, expect=1)
    body = rules.sub("R2.alias.fineGrid", r"const\s+PolarGrid\s*&\s*fineGrid\s*=\s*toLevel\.grid\(\)\s*;", "", body, expect=1)
    f["body"] = body
    e = units.emit_function_globals("Interpolation_applyFMGInterpolation", f, rules, "R")
    c += [e["text"], e["wrapper"]]
    c.append("static void setup(void) {")
    c.append(units.grid_setup_concrete("fineGrid", nr, nt, nsc_f))
    c.append(units.grid_setup_concrete("coarseGrid", ncr, nct, nsc_c))
    # coarse grid = every second node of the fine grid (contract of coarseningGrid): coordinates and spacings
    for i in range(ncr):
        c.append("  coarseGrid__radii_[%d] = fineGrid__radii_[%d];" % (i, 2 * i))
    for i in range(ncr - 1):
        c.append("  coarseGrid__radial_spacings_[%d] = fineGrid__radial_spacings_[%d] + fineGrid__radial_spacings_[%d];" % (i, 2 * i, 2 * i + 1))
    for j in range(nct + 1):
        c.append("  coarseGrid__angles_[%d] = fineGrid__angles_[%d];" % (j, 2 * j))
    for j in range(nct):
        c.append("  coarseGrid__angular_spacings_[%d] = fineGrid__angular_spacings_[%d] + fineGrid__angular_spacings_[%d];" % (j, 2 * j, 2 * j + 1))
    c.append("  fromLevel = lvlC; toLevel = lvlF; x_size = %d; result_size = %d;" % (NC, NF))
    c.append("}")
    return c, NF, NC, ncr, nct


def fidx(nr, nt, nsc, a, b):
    return b + nt * a if a < nsc else nsc * nt + (a - nsc) + (nr - nsc) * b


def jobs_for(nr, nt, nsc_f, nsc_c):
    rules, hashes = Rules("C09"), {}
    c, NF, NC, ncr, nct = fmg_unit(rules, hashes, nr, nt, nsc_f, nsc_c)
    jobs = []
    tag = "[nr=%d,nt=%d,nscF=%d,nscC=%d]" % (nr, nt, nsc_f, nsc_c)
    bound = "grid shape pair fixed (fine %dx%d split %d, coarse split %d); spacings and vectors symbolic reals" % (nr, nt, nsc_f, nsc_c)
    # job 1: coarse values are copied; constants are reproduced everywhere
    h = ["void harness(void) {", "  setup();", "  const real_t cst = nondet_real();"]
    h += ["  x[%d] = nondet_real();" % k for k in range(NC)]
    h.append("  Interpolation_applyFMGInterpolation(fromLevel, toLevel, result, x);")
    for i in range(ncr):
        for j in range(nct):
            h.append("  __CPROVER_assert(result[%d] == x[%d], \"OBL:fmg_returns_the_coarse_value_at_coarse_nodes[coarse=(%d,%d)]\");" % (
                fidx(nr, nt, nsc_f, 2 * i, 2 * j), fidx(ncr, nct, nsc_c, i, j), i, j))
    h += ["  x[%d] = cst;" % k for k in range(NC)]
    h.append("  Interpolation_applyFMGInterpolation(fromLevel, toLevel, result, x);")
    for a in range(nr):
        for b in range(nt):
            h.append("  __CPROVER_assert(result[%d] == cst, \"OBL:fmg_reproduces_constants[fine=(%d,%d)]\");" % (fidx(nr, nt, nsc_f, a, b), a, b))
    h.append("  __CPROVER_assert(cst != cst, \"COVER:reached_end\");")
    h.append("}")
    j = Job("C09.fmg.copy_const" + tag, "\n".join(c + h), "R", unwind=max(nr, nt) + 2, timeout=900, bounded=bound,
            functions=["Interpolation::applyFMGInterpolation", "FINE_NODE_FMG_INTERPOLATION"], covers={"COVER:reached_end"},
            split=r"^OBL:fmg_reproduces", split_chunk=4, split_timeout=300, extra=["--max-field-sensitivity-array-size", "4096"])
    j.rules, j.hashes = rules, hashes
    jobs.append(j)
    # job 2: monomials t^m in theta (m = 1,2,3) at nodes whose 4-point stencil does not cross the periodic seam,
    #        monomials r^m (m = 1,2,3) at radially interior nodes (1 < i_r < nr-2); linear rule on i_r in {1, nr-2} for midpoint grids
    for direction in ("theta", "r"):
        for m in (1, 2, 3):
            h = ["void harness(void) {", "  setup();"]
            if direction == "theta":
                for i in range(ncr):
                    for jj in range(nct):
                        t = "coarseGrid.theta(%d)" % jj
                        h.append("  x[%d] = %s;" % (fidx(ncr, nct, nsc_c, i, jj), " * ".join([t] * m)))
            else:
                for i in range(ncr):
                    for jj in range(nct):
                        t = "coarseGrid.radius(%d)" % i
                        h.append("  x[%d] = %s;" % (fidx(ncr, nct, nsc_c, i, jj), " * ".join([t] * m)))
            h.append("  Interpolation_applyFMGInterpolation(fromLevel, toLevel, result, x);")
            n_obl = 0
            for a in range(nr):
                for b in range(nt):
                    if direction == "theta":
                        # theta stencil of fine (a, b odd): coarse b/2-1 .. b/2+2 must not wrap; radial part must be a copy or exact
                        if b % 2 == 1 and (b // 2 - 1) >= 0 and (b // 2 + 2) <= nct - 1 and a % 2 == 0:
                            t = "fineGrid.theta(%d)" % b
                            h.append("  __CPROVER_assert(result[%d] == %s, \"OBL:fmg_exact_for_theta^%d[fine=(%d,%d)]\");" % (fidx(nr, nt, nsc_f, a, b), " * ".join([t] * m), m, a, b))
                            n_obl += 1
                    else:
                        if a % 2 == 1 and 1 < a < nr - 2 and b % 2 == 0:
                            t = "fineGrid.radius(%d)" % a
                            h.append("  __CPROVER_assert(result[%d] == %s, \"OBL:fmg_exact_for_r^%d[fine=(%d,%d)]\");" % (fidx(nr, nt, nsc_f, a, b), " * ".join([t] * m), m, a, b))
                            n_obl += 1
            if n_obl == 0:
                continue
            h.append("  __CPROVER_assert(fineGrid.theta(1) != fineGrid.theta(1), \"COVER:reached_end\");")
            h.append("}")
            j = Job("C09.fmg.exact_%s^%d%s" % (direction, m, tag), "\n".join(c + h), "R", unwind=max(nr, nt) + 2, timeout=900, bounded=bound,
                    functions=["Interpolation::applyFMGInterpolation", "FINE_NODE_FMG_INTERPOLATION"], covers={"COVER:reached_end"},
                    split=r"^OBL:fmg_exact", split_chunk=1, split_timeout=240, skip_batch=True,
                    extra=["--max-field-sensitivity-array-size", "4096"])
            j.covers = set()
            j.rules, j.hashes = rules, hashes
            jobs.append(j)
    return jobs


# ---- cubic exactness through LOCAL polynomials (few variables): one symbolic cubic in the signed distances from the fine node ------
def local_poly_jobs(nr, nt, nsc_f, nsc_c, nodes=None):
    """For a fine node (a, b): coarse data = p(d_theta, d_r) with p a polynomial with symbolic coefficients in the signed distances
    (sums of the symbolic spacings) from the fine node; the interpolated value must be p(0, 0) = c00.  Degree: cubic in a direction
    that uses the 4-point rule, linear where the code uses the 2-point rule (rows 1 and nr-2 in r).  Coarse nodes outside the
    4 x 4 (or smaller) stencil get arbitrary values."""
    rules, hashes = Rules("C09"), {}
    c, NF, NC, ncr, nct = fmg_unit(rules, hashes, nr, nt, nsc_f, nsc_c)
    jobs = []
    bound = "grid shape pair fixed (fine %dx%d split %d, coarse split %d); spacings and polynomial coefficients symbolic reals" % (nr, nt, nsc_f, nsc_c)
    for a in range(nr):
        for b in range(nt):
            if a % 2 == 0 and b % 2 == 0:
                continue
            if nodes is not None and (a, b) not in nodes:
                continue
            deg_t = 3 if b % 2 == 1 else 0
            if a % 2 == 0:
                deg_r = 0
            elif a == 1 or a == nr - 2:
                deg_r = 1
            else:
                deg_r = 3
            h = ["void harness(void) {", "  setup();"]
            coef = {}
            for m in range(deg_t + 1):
                for n in range(deg_r + 1):
                    coef[(m, n)] = "c%d%d" % (m, n)
                    h.append("  const real_t c%d%d = nondet_real();" % (m, n))
            h += ["  x[%d] = nondet_real();" % k for k in range(NC)]
            # signed distances from the fine node to coarse lines, as sums of fine spacings
            def dist_t(jc):      # coarse angle index jc (may be out of 0..nct-1: periodic), fine index 2*jc
                tgt = 2 * jc
                if tgt >= b:
                    return " + ".join("fineGrid.angularSpacing(%d)" % q for q in range(b, tgt)) or "0"
                return "0 - (" + " + ".join("fineGrid.angularSpacing(%d)" % q for q in range(tgt, b)) + ")"
            def dist_r(ic):
                tgt = 2 * ic
                if tgt >= a:
                    return " + ".join("fineGrid.radialSpacing(%d)" % q for q in range(a, tgt)) or "0"
                return "0 - (" + " + ".join("fineGrid.radialSpacing(%d)" % q for q in range(tgt, a)) + ")"
            jcs = [b // 2] if b % 2 == 0 else [b // 2 - 1, b // 2, b // 2 + 1, b // 2 + 2]
            if a % 2 == 0:
                ics = [a // 2]
            elif deg_r == 1:
                ics = [a // 2, a // 2 + 1]
            else:
                ics = [a // 2 - 1, a // 2, a // 2 + 1, a // 2 + 2]
            for ic in ics:
                if not (0 <= ic < ncr):
                    raise ExtractError("radial stencil of (%d,%d) leaves the grid" % (a, b))
                for jc in jcs:
                    dt, dr = dist_t(jc), dist_r(ic)
                    terms = []
                    for (m, n), cn in coef.items():
                        terms.append(" * ".join([cn] + ["DT"] * m + ["DR"] * n))
                    h.append("  { const real_t DT = %s, DR = %s; x[%d] = %s; }" % (dt, dr, fidx(ncr, nct, nsc_c, ic, jc % nct), " + ".join(terms)))
            h.append("  Interpolation_applyFMGInterpolation(fromLevel, toLevel, result, x);")
            h.append("  __CPROVER_assert(result[%d] == c00, \"OBL:fmg_reproduces_local_polynomials(degree %d in theta, %d in r)[fine=(%d,%d)]\");" % (fidx(nr, nt, nsc_f, a, b), deg_t, deg_r, a, b))
            h.append("  __CPROVER_assert(c00 != c00, \"COVER:reached_end\");")
            h.append("}")
            j = Job("C09.fmg.local[fine=(%d,%d),nr=%d,nt=%d,nscF=%d,nscC=%d]" % (a, b, nr, nt, nsc_f, nsc_c), "\n".join(c + h), "R", unwind=max(nr, nt) + 2, timeout=900, bounded=bound,
                    functions=["Interpolation::applyFMGInterpolation", "FINE_NODE_FMG_INTERPOLATION"], covers={"COVER:reached_end"},
                    split=r"^OBL:fmg_reproduces|^COVER:", split_chunk=1, split_timeout=400, skip_batch=True,
                    extra=["--max-field-sensitivity-array-size", "4096"])
            j.rules, j.hashes = rules, hashes
            jobs.append(j)
    return jobs
