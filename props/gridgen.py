"""Grid generation (C18 / C17): uniform radial division, midpoint refinement, angular division, divideBy2 bisections,
spacing arrays, every-second-node coarsening -- the verbatim bodies of

    PolarGrid::constructRadialDivisions (uniform branch), constructAngularDivisions, refineGrid, divideVector,
    initializeDistances  and the free function coarseningGrid

run in Layer R (exact reals) for CONCRETE exponents nr_exp, ntheta_exp, divideBy2 with symbolic 0 < R0 < Rmax.
std::vector<double> is replaced by a stated model (array + size, every subscript carries the size check); pow(2, k) /
ceil(log2(n)) on integers are computed in integers (floating-point exactness of pow(2, k) for integral k is assumed).
BOUNDED in the exponents (listed); NOT decided: anisotropic division (std::set code), checkParameters (std algorithms and
lambdas), file round trip (iostream)."""
import re
from vlib import Src, Rules, Job, ExtractError, common_body_rewrites, sha
import units

REF = "src/PolarGrid/polargrid.cpp"
VECS = ["r_temp", "radii_", "angles_", "vec", "result", "radial_spacings_", "angular_spacings_", "coarse_r", "coarse_theta"]

MODEL = r"""
#define CAP @CAP@
/* std::vector<double> model: array + size; subscripts carry the size check (R12) */
@DECLS@
#define VCHK(a, i) (__CPROVER_assert((i) >= 0 && (i) < a##_size, "vector subscript within size: " #a), (i))
#define VRESIZE(a, n) do { __CPROVER_assert((n) >= 0 && (n) <= CAP, "harness capacity"); for (int q_ = a##_size; q_ < (n); q_++) a[q_] = 0; a##_size = (n); } while (0)
#define VCOPY(dst, src) do { for (int q_ = 0; q_ < src##_size; q_++) dst[q_] = src[q_]; dst##_size = src##_size; } while (0)
static int v_ipow2(int k) { __CPROVER_assert(k >= 0 && k < 30, "pow(2, k): exponent in range"); return 1 << k; }
static int v_ceil_log2(int n) { __CPROVER_assert(n >= 1, "log2 of a positive number"); int k = 0; while ((1 << k) < n) k++; return k; }
static real_t M_PI_;
#define M_PI M_PI_
static int nr_, ntheta_; static _Bool is_ntheta_PowerOfTwo_;
#define nr() nr_
#define ntheta() ntheta_
#define radius(i) radii_[VCHK(radii_, i)]      /* PolarGrid::radius: assert(index in range); return radii_[index] (text checked) */
#define theta(i) angles_[VCHK(angles_, i)]
#define VERIF_UNREACHABLE(what) __CPROVER_assert(0, "OBL:not reached in the decided configuration: " what)
"""


def check_accessors():
    inl = Src.get("include/PolarGrid/polargrid.inl")
    want = {"radius": "assert(r_index>=0&&static_cast<size_t>(r_index)<radii_.size());returnradii_[r_index];",
            "theta": "assert(theta_index>=0&&static_cast<size_t>(theta_index)<angles_.size());returnangles_[theta_index];",
            "nr": "returnnr_;", "ntheta": "returnntheta_;"}
    for name, w in want.items():
        f = inl.function("PolarGrid::" + name)
        if "".join(f["body"].split()) != w:
            raise ExtractError("PolarGrid::%s changed" % name)


def vec_rewrites(b, rules, tag):
    b = rules.sub("G.vec_resize(%s)" % tag, r"\b(%s)\.resize\(([^;]+)\);" % "|".join(VECS), r"VRESIZE(\1, \2);", b)
    b = rules.sub("G.vec_back(%s)" % tag, r"\b(%s)\.back\(\)" % "|".join(VECS), r"\1[\1_size - 1]", b)
    b = rules.sub("G.size_t(%s)" % tag, r"\bsize_t\b", "int", b)
    b, n = units.wrap_subscripts(b, VECS, "VCHK(%s, %s)")
    rules.log.append(("R12.subscripts(%s)" % tag, n))
    return b


def unit(rules, hashes, cap):
    check_accessors()
    src = Src.get(REF)
    decls = "\n".join("static real_t %s[CAP]; static int %s_size;" % (v, v) for v in VECS)
    c = [units.PRELUDE_R, MODEL.replace("@CAP@", str(cap)).replace("@DECLS@", decls)]
    # ---- divideVector ----
    f = src.function("PolarGrid::divideVector", must_params=["vec", "divideBy2"])
    hashes["PolarGrid::divideVector"] = sha(f["body"])
    b = f["body"]
    b = rules.sub("G.powerOfTwo_int", r"const\s+double\s+powerOfTwo\s*=\s*1\s*<<\s*divideBy2;", "const int powerOfTwo = 1 << divideBy2;", b, expect=1)
    b = rules.sub("G.result_decl", r"std::vector<double>\s+result\(resultSize\);", "result_size = 0; VRESIZE(result, resultSize);", b, expect=1)
    b = rules.sub("G.return_result", r"return\s+result;", "return;", b, expect=1)
    b = rules.sub("G.pre_increment", r"\+\+(\w+)\)", r"\1++)", b)
    b = vec_rewrites(b, rules, "divideVector")
    b = common_body_rewrites(b, rules, "R")
    c.append("static void divideVector__impl(const int divideBy2)   /* R3: parameter vec and the returned vector are the file-scope vec / result */\n{%s}\n" % b)
    # ---- refineGrid ----
    f = src.function("PolarGrid::refineGrid", must_params=["divideBy2"])
    hashes["PolarGrid::refineGrid"] = sha(f["body"])
    b = f["body"]
    b = rules.sub("G.divide_assign", r"\b(radii_|angles_)\s*=\s*divideVector\(\1,\s*divideBy2\);", r"VCOPY(vec, \1); divideVector__impl(divideBy2); VCOPY(\1, result);", b, expect=2)
    b = common_body_rewrites(vec_rewrites(b, rules, "refineGrid"), rules, "R")
    c.append("static void refineGrid(const int divideBy2)\n{%s}\n" % b)
    # ---- constructRadialDivisions ----
    f = src.function("PolarGrid::constructRadialDivisions", must_params=["R0", "R", "nr_exp", "refinement_radius", "anisotropic_factor"])
    hashes["PolarGrid::constructRadialDivisions"] = sha(f["body"])
    b = f["body"]
    b = rules.sub("G.r_temp_decl", r"std::vector<double>\s+r_temp;", "r_temp_size = 0;", b, expect=1)
    b = rules.sub("G.pow2_int", r"\bint\s+nr\s*=\s*pow\(2,\s*nr_exp\s*-\s*1\)\s*\+\s*1;", "int nr = v_ipow2(nr_exp - 1) + 1;", b, expect=1)
    b = rules.sub("G.anisotropic_call", r"RadialAnisotropicDivision\(r_temp,\s*R0,\s*R,\s*nr_exp,\s*refinement_radius,\s*anisotropic_factor\);",
                  'VERIF_UNREACHABLE("RadialAnisotropicDivision (std::set code, not decided)");', b, expect=1)
    b = common_body_rewrites(vec_rewrites(b, rules, "constructRadialDivisions"), rules, "R")
    c.append("static void constructRadialDivisions(const real_t R0, const real_t R, const int nr_exp, const real_t refinement_radius, const int anisotropic_factor)\n{%s}\n" % b)
    # ---- constructAngularDivisions ----
    f = src.function("PolarGrid::constructAngularDivisions", must_params=["ntheta_exp", "nr"])
    hashes["PolarGrid::constructAngularDivisions"] = sha(f["body"])
    b = f["body"]
    b = rules.sub("G.pow2_ceil_log2", r"ntheta_\s*=\s*pow\(2,\s*ceil\(log2\(nr\)\)\);", "ntheta_ = v_ipow2(v_ceil_log2(nr));", b, expect=1)
    b = rules.sub("G.pow2_int", r"ntheta_\s*=\s*pow\(2,\s*ntheta_exp\);", "ntheta_ = v_ipow2(ntheta_exp);", b, expect=1)
    b = common_body_rewrites(vec_rewrites(b, rules, "constructAngularDivisions"), rules, "R")
    c.append("static void constructAngularDivisions(const int ntheta_exp, const int nr)\n{%s}\n" % b)
    # ---- initializeDistances ----
    f = src.function("PolarGrid::initializeDistances")
    hashes["PolarGrid::initializeDistances"] = sha(f["body"])
    b = common_body_rewrites(vec_rewrites(f["body"], rules, "initializeDistances"), rules, "R")
    c.append("static void initializeDistances(void)\n{%s}\n" % b)
    # ---- coarseningGrid (free function): the arrays handed to the PolarGrid(radii, angles) constructor ----
    f = src.function("coarseningGrid", must_params=["fineGrid"])
    hashes["coarseningGrid"] = sha(f["body"])
    b = f["body"]
    b = rules.sub("G.fine_accessors", r"\bfineGrid\.(nr|ntheta)\(\)", r"\1_", b, expect="+")
    b = rules.sub("G.fine_accessors", r"\bfineGrid\.(radius|theta)\(", r"\1(", b, expect=2)
    b = rules.sub("G.coarse_decl", r"std::vector<double>\s+(coarse_r|coarse_theta)\(([^;]+)\);", r"\1_size = 0; VRESIZE(\1, \2);", b, expect=2)
    b = rules.sub("G.coarse_return", r"return\s+PolarGrid\(coarse_r,\s*coarse_theta,\s*fineGrid\.smootherSplittingRadius\(\)\);", "{ g_same_split = 1; return; }", b, expect=1)
    b = rules.sub("G.coarse_return", r"return\s+PolarGrid\(coarse_r,\s*coarse_theta\);", "{ g_same_split = 0; return; }", b, expect=1)
    b = common_body_rewrites(vec_rewrites(b, rules, "coarseningGrid"), rules, "R")
    if re.search(r"std::|fineGrid", b):
        raise ExtractError("unhandled construct in coarseningGrid")
    c.append("static _Bool g_same_split;\nstatic void coarseningGrid(void)   /* the coarse grid is PolarGrid(coarse_r, coarse_theta[, split]) */\n{%s}\n" % b)
    # the generating constructor calls the helpers in this order (text checked)
    ctor = [src.function("PolarGrid::PolarGrid", occurrence=k) for k in range(3)]
    ctor = [g for g in ctor if "nr_exp" in g["params_text"]]
    if len(ctor) != 1:
        raise ExtractError("generating PolarGrid constructor not found")
    hashes["PolarGrid::PolarGrid(R0, Rmax, nr_exp, ...)"] = sha(ctor[0]["body"])
    order = re.findall(r"\b(constructRadialDivisions|constructAngularDivisions|refineGrid|checkParameters|initializeDistances|initializeLineSplitting)\(([^;]*)\);", ctor[0]["body"])
    want = [("constructRadialDivisions", "R0, Rmax, nr_exp, refinement_radius, anisotropic_factor"), ("constructAngularDivisions", "ntheta_exp, nr_"),
            ("refineGrid", "divideBy2"), ("checkParameters", "radii_, angles_"), ("initializeDistances", ""), ("initializeLineSplitting", "splitting_radius")]
    if [(a, " ".join(b_.split())) for a, b_ in order] != want:
        raise ExtractError("generating constructor changed: %s" % order)
    for v in VECS:
        for t in c[2:]:
            if re.search(r"\b%s\s*\.\s*\w+\(" % v, t):
                raise ExtractError("unhandled vector method on %s" % v)
    return c


def generate(h, nr_exp, nt_exp, d):
    h.append("  constructRadialDivisions(R0, Rmax, %d, refinement_radius, 0);" % nr_exp)
    h.append("  constructAngularDivisions(%d, nr_);" % nt_exp)
    h.append("  refineGrid(%d);" % d)


def job_for(nr_exp, nt_exp, d):
    rules, hashes = Rules("gridgen"), {}
    nr0 = 2 ** nr_exp + 1                       # after the midpoint refinement
    nt0 = 2 ** nt_exp if nt_exp >= 0 else 2 ** ((nr0 - 1).bit_length())
    nr, nt = (nr0 - 1) * 2 ** d + 1, nt0 * 2 ** d
    cap = max(nr, nt + 1) + 2
    c = unit(rules, hashes, cap)
    h = ["static real_t PREV_R[CAP], PREV_T[CAP];", "void harness(void) {",
         "  const real_t R0 = nondet_real(), Rmax = nondet_real(), refinement_radius = nondet_real();",
         "  M_PI_ = nondet_real(); __CPROVER_assume(M_PI_ > 3 && M_PI_ < 4);",
         "  __CPROVER_assume(R0 > 0 && Rmax > R0);   /* assert of the generating constructor */"]
    if d > 0:
        generate(h, nr_exp, nt_exp, d - 1)
        h.append("  for (int i = 0; i < radii__size; i++) PREV_R[i] = radii_[i];")
        h.append("  for (int j = 0; j < angles__size; j++) PREV_T[j] = angles_[j];")
    generate(h, nr_exp, nt_exp, d)
    h.append("  __CPROVER_assert(nr_ == %d && radii__size == %d, \"OBL:number_of_radii[expected %d]\");" % (nr, nr, nr))
    h.append("  __CPROVER_assert(ntheta_ == %d && angles__size == %d, \"OBL:number_of_angles[expected %d]\");" % (nt, nt + 1, nt))
    h.append("  __CPROVER_assert(is_ntheta_PowerOfTwo_ == 1, \"OBL:power_of_two_flag_matches_ntheta\");")
    h.append("  __CPROVER_assert(radii_[0] == R0, \"OBL:first_radius_is_exactly_R0\");")
    h.append("  __CPROVER_assert(radii_[%d] == Rmax, \"OBL:last_radius_is_exactly_Rmax\");" % (nr - 1))
    for i in range(nr - 1):
        h.append("  __CPROVER_assert(radii_[%d] < radii_[%d], \"OBL:radii_strictly_increasing[i=%d]\");" % (i, i + 1, i))
    for i in range(1, nr - 1, 2):
        h.append("  __CPROVER_assert(2 * radii_[%d] == radii_[%d] + radii_[%d], \"OBL:fine_radius_is_the_midpoint_of_its_coarse_neighbours[i=%d]\");" % (i, i - 1, i + 1, i))
    h.append("  __CPROVER_assert(angles_[0] == 0, \"OBL:first_angle_is_zero\");")
    h.append("  __CPROVER_assert(angles_[%d] == 2 * M_PI_, \"OBL:last_angle_is_two_pi\");" % nt)
    for j in range(nt + 1):
        h.append("  __CPROVER_assert(%d * angles_[%d] == %d * 2 * M_PI_, \"OBL:angles_uniform[j=%d]\");" % (nt, j, j, j))
    for j in range(nt // 2):
        h.append("  __CPROVER_assert(angles_[%d] == angles_[%d] + M_PI_, \"OBL:angle_has_its_antipode[j=%d]\");" % (j + nt // 2, j, j))
    if d > 0:
        for i in range((nr + 1) // 2):
            h.append("  __CPROVER_assert(radii_[%d] == PREV_R[%d], \"OBL:grid_of_one_bisection_less_is_the_every_second_node_subgrid(radii)[i=%d]\");" % (2 * i, i, i))
        for j in range(nt // 2 + 1):
            h.append("  __CPROVER_assert(angles_[%d] == PREV_T[%d], \"OBL:grid_of_one_bisection_less_is_the_every_second_node_subgrid(angles)[j=%d]\");" % (2 * j, j, j))
    h.append("  initializeDistances();")
    h.append("  __CPROVER_assert(radial_spacings__size == %d && angular_spacings__size == %d, \"OBL:spacing_array_sizes\");" % (nr - 1, nt))
    for i in range(nr - 1):
        h.append("  __CPROVER_assert(radial_spacings_[%d] == radii_[%d] - radii_[%d] && radial_spacings_[%d] > 0, \"OBL:radial_spacing_is_the_coordinate_difference[i=%d]\");" % (i, i + 1, i, i, i))
    for j in range(nt):
        h.append("  __CPROVER_assert(angular_spacings_[%d] == angles_[%d] - angles_[%d] && angular_spacings_[%d] > 0, \"OBL:angular_spacing_is_the_coordinate_difference[j=%d]\");" % (j, j + 1, j, j, j))
    h.append("  coarseningGrid();")
    h.append("  __CPROVER_assert(coarse_r_size == %d && coarse_theta_size == %d, \"OBL:coarse_grid_sizes\");" % ((nr + 1) // 2, nt // 2 + 1))
    for i in range((nr + 1) // 2):
        h.append("  __CPROVER_assert(coarse_r[%d] == radii_[%d], \"OBL:coarsening_keeps_every_second_radius[i=%d]\");" % (i, 2 * i, i))
    for j in range(nt // 2 + 1):
        h.append("  __CPROVER_assert(coarse_theta[%d] == angles_[%d], \"OBL:coarsening_keeps_every_second_angle[j=%d]\");" % (j, 2 * j, j))
    h.append("  __CPROVER_assert(coarse_r[0] == R0 && coarse_r[%d] == Rmax && coarse_theta[0] == 0 && coarse_theta[%d] == 2 * M_PI_, \"OBL:coarsening_keeps_both_boundaries\");" % ((nr + 1) // 2 - 1, nt // 2))
    h.append("  __CPROVER_assert(R0 != R0, \"COVER:reached_end\");")
    h.append("}")
    j = Job("gridgen[nr_exp=%d,ntheta_exp=%d,divideBy2=%d]" % (nr_exp, nt_exp, d), "\n".join(c + h), "R", unwind=cap + 3, timeout=900,
            bounded="nr_exp=%d, ntheta_exp=%d, divideBy2=%d, uniform division (anisotropic_factor 0); R0 < Rmax symbolic reals" % (nr_exp, nt_exp, d),
            functions=["PolarGrid::constructRadialDivisions", "PolarGrid::constructAngularDivisions", "PolarGrid::refineGrid", "PolarGrid::divideVector",
                       "PolarGrid::initializeDistances", "coarseningGrid"],
            covers={"COVER:reached_end"}, split=r"^OBL:(radii_strictly|fine_radius|grid_of_one|last_radius)|^COVER:", split_chunk=8, split_timeout=300,
            extra=["--max-field-sensitivity-array-size", "4096"])
    j.rules, j.hashes = rules, hashes
    return j


# ---- RadialAnisotropicDivision: the refinement window (index computation + first read loop), plain CBMC on doubles --------------
ANISO_PRELUDE = r"""
#include <math.h>
#define CAP @CAP@
#define assert(c) __CPROVER_assert((c), "source assert: " #c)
double nondet_double(void);
static double r_temp2[CAP]; static int r_temp2_size; static _Bool g_thrown;
#define ACHK(i) (__CPROVER_assert((i) >= 0, "OBL:refinement_window_starts_at_or_after_the_first_node(r_temp2 subscript >= 0)"), \
                 __CPROVER_assert((i) < r_temp2_size, "OBL:refinement_window_ends_inside_the_uniform_division(r_temp2 subscript < size)"), (i))
#define VRESIZE_R2(n) do { __CPROVER_assert((n) >= 0 && (n) <= CAP, "harness capacity"); r_temp2_size = (n); } while (0)
static int v_ipow2(int k) { __CPROVER_assert(k >= 0 && k < 30, "OBL:pow(2, k): exponent is a small non-negative integer"); return 1 << k; }
/* (int)(log2(x) + 1) for x >= 1: floor(log2(x)) + 1 (x is integer valued here); x < 1 makes the double -> int conversion undefined */
static int v_ilog2_plus1(double x) { __CPROVER_assert(x >= 1.0, "OBL:log2_argument_is_at_least_one(double -> int conversion defined)"); __CPROVER_assume(x >= 1.0); int k = 0; while (k < 30 && (double)(1 << (k + 1)) <= x) k++; return k + 1; }
static double SET_SINK;
typedef double real_t;
#define v_floor floor
#define v_ceil ceil
static int v_min(int a, int b) { return a < b ? a : b; }
"""


def aniso_job(nr_exp, aniso):
    rules, hashes = Rules("gridgen"), {}
    f = Src.get("src/PolarGrid/anisotropic_division.cpp").function("PolarGrid::RadialAnisotropicDivision",
                                                                    must_params=["r_temp", "R0", "R", "nr_exp", "refinement_radius", "anisotropic_factor"])
    hashes["PolarGrid::RadialAnisotropicDivision"] = sha(f["body"])
    b = f["body"]
    cut = b.find("double half = uniform_distance / 2.0;")
    if cut < 0 or b.count("double half = uniform_distance / 2.0;") != 1:
        raise ExtractError("RadialAnisotropicDivision: marker of the end of the window computation not found")
    b = b[:cut]          # the std::set based refinement after this point is NOT decided
    b = rules.sub("A.iterators", r"std::set<double,\s*std::greater<double>>::iterator\s+itr,\s*itr_p1;", "", b, expect=1)
    b = rules.sub("A.sets", r"std::set<double>\s+(r_set|r_set_p1);", "", b, expect=2)
    b = rules.sub("A.set_insert", r"r_set_p1\.insert\(r_temp2\[([^\]]+)\]\);", r"SET_SINK = r_temp2[ACHK(\1)];", b, expect=1)
    b = rules.sub("A.vector_decl", r"std::vector<double>\s+r_temp2\s*=\s*std::vector<double>\(nr\);", "VRESIZE_R2(nr);", b, expect=1)
    b = rules.sub("A.log2_int", r"int\s+new_aniso\s*=\s*log2\(([^;]+)\)\s*\+\s*1;", r"int new_aniso = v_ilog2_plus1(\1);", b, expect=1)
    b = rules.sub("A.pow2_int", r"\bpow\(2,\s*(\w+)\)", r"v_ipow2(\1)", b, expect=4)
    b = rules.sub("R8.throw", r"throw\s+std::(\w+)\(([^;]*)\);", "{ g_thrown = 1; return; }", b, expect=1)
    # the function states its precondition as an assert: assumed (the harness leaves the refinement radius otherwise free)
    b = rules.sub("R8b.precondition", r"assert\(percentage >= 0\.0 && percentage <= 1\.0\);", "__CPROVER_assume(percentage >= 0.0 && percentage <= 1.0);", b, expect=1)
    b = common_body_rewrites(b, rules, "I")
    b, n = units.wrap_subscripts(b, ["r_temp2"], "%.0sACHK2(%s)")
    b = b.replace("r_temp2[ACHK2(ACHK(", "r_temp2[(ACHK(")
    b = b.replace("ACHK2(", "ACHK(")
    if re.search(r"std::|\bitr\b", b):
        raise ExtractError("unhandled construct in the window computation: %s" % re.search(r"std::\w+|\bitr\b", b).group(0))
    nmax = 2 ** nr_exp + 2
    c = [ANISO_PRELUDE.replace("@CAP@", str(nmax + 2))]
    c.append("static void RadialAnisotropicDivision_window(const double R0, const double R, const int nr_exp, const double refinement_radius, const int anisotropic_factor)\n{%s}\n" % b)
    h = ["void harness(void) {", "  const double R0 = nondet_double(), R = nondet_double(), refinement_radius = nondet_double();",
         "  __CPROVER_assume(R0 >= 1e-6 && R0 <= 10.0 && R > R0 && R <= 100.0 && R - R0 >= 1e-3);",
         "  __CPROVER_assume(refinement_radius >= -1000.0 && refinement_radius <= 1000.0);   /* finite; the function's own precondition (percentage in [0, 1]) is assumed inside */",
         "  g_thrown = 0;",
         "  RadialAnisotropicDivision_window(R0, R, %d, refinement_radius, %d);" % (nr_exp, aniso),
         "  __CPROVER_assert(0, \"COVER:reached_end\");", "}"]
    j = Job("gridgen.anisotropic_window[nr_exp=%d,anisotropic_factor=%d]" % (nr_exp, aniso), "\n".join(c + h), "P", unwind=nmax + 4, timeout=900,
            bounded="unwind %d; nr_exp=%d, anisotropic_factor=%d fixed; R0 < refinement radius < Rmax symbolic doubles (IEEE)" % (nmax + 4, nr_exp, aniso),
            functions=["PolarGrid::RadialAnisotropicDivision (window computation and first read loop; the std::set refinement is not decided)"],
            covers={"COVER:reached_end"}, split=r".", split_chunk=1, split_timeout=600,     # every property on its own, sliced: the data path drops out
            extra=["--conversion-check"])
    j.rules, j.hashes = rules, hashes
    return j


# ---- PolarGrid::checkParameters: std algorithms + lambdas -> loops (statement expressions), lambda bodies verbatim -------------
CP_PRELUDE = r"""
#define CAP @CAP@
static real_t radii[CAP], angles[CAP]; static int radii_size, angles_size; static _Bool g_thrown;
#define VCHK(a, i) (__CPROVER_assert((i) >= 0 && (i) < a##_size, "vector subscript within size: " #a), (i))
static real_t M_PI_;
#define M_PI M_PI_
#define V_EPSILON (RQ(1,67108864) * RQ(1,67108864))      /* std::numeric_limits<double>::epsilon() = 2^-52 */
static real_t v_abs(real_t a) { return a < 0 ? -a : a; }
static real_t v_max(real_t a, real_t b) { return a < b ? b : a; }
/* model of the std algorithms used (trusted): iterators are indices into the named vector */
#define ADJ_FIND_GE(a, i1, i2) ({ int r_ = (i2); for (int q_ = (i1); q_ + 1 < (i2); q_++) if (a[VCHK(a, q_)] >= a[VCHK(a, q_ + 1)]) { r_ = q_; break; } r_; })
#define LOWER_BOUND(a, i1, i2, val) ({ int r_ = (i2); for (int q_ = (i1); q_ < (i2); q_++) if (!(a[VCHK(a, q_)] < (val))) { r_ = q_; break; } r_; })
"""


def translate_std_algorithms(b, rules, fname):
    """std::all_of / any_of / none_of / find_if with a lambda, std::adjacent_find(.., std::greater_equal<double>()), std::lower_bound,
    front/back/size on the two parameter vectors -> loops over indices (GNU statement expressions); the lambda BODIES stay verbatim
    (their final `return E;` becomes the value E).  Innermost calls first."""
    from vlib import match_close, split_top
    itmap = {}

    def lb(m):
        itmap[m.group(1)] = m.group(2)
        return "const int %s = LOWER_BOUND(%s, 0, %s_size, %s);" % (m.group(1), m.group(2), m.group(2), m.group(3))
    b = re.sub(r"const\s+auto\s+(\w+)\s*=\s*std::lower_bound\((\w+)\.begin\(\),\s*\2\.end\(\),\s*([^;]+)\);", lb, b)
    rules.log.append(("CP.lower_bound(%s)" % fname, len(itmap)))

    def it(expr):
        e = expr.strip()
        m = re.fullmatch(r"(\w+)\.begin\(\)", e)
        if m:
            return m.group(1), "0"
        m = re.fullmatch(r"(\w+)\.end\(\)", e)
        if m:
            return m.group(1), m.group(1) + "_size"
        if e in itmap:
            return itmap[e], e
        raise ExtractError("%s: iterator expression `%s` not understood" % (fname, e))
    k = 0
    while True:
        ms = list(re.finditer(r"std::(all_of|any_of|none_of|find_if)\s*\(", b))
        if not ms:
            break
        m = ms[-1]
        po = m.end() - 1
        pc = match_close(b, po, "(", ")")
        args = split_top(b[po + 1:pc], ",")
        if len(args) != 3:
            raise ExtractError("%s: std::%s with %d arguments" % (fname, m.group(1), len(args)))
        (a1, i1), (a2, i2) = it(args[0]), it(args[1])
        if a1 != a2:
            raise ExtractError("%s: iterator range over two vectors" % fname)
        lam = re.fullmatch(r"\s*\[[^\]]*\]\s*\(\s*double\s+(\w+)\s*\)\s*\{(.*)\}\s*", args[2], re.S)
        if not lam:
            raise ExtractError("%s: third argument of std::%s is not a lambda over double" % (fname, m.group(1)))
        var, body = lam.group(1), lam.group(2).strip()
        rm = list(re.finditer(r"\breturn\b", body))
        if len(rm) != 1 or not body.endswith(";"):
            raise ExtractError("%s: lambda with other than one final return" % fname)
        body = body[:rm[0].start()] + body[rm[0].end():]
        k += 1
        kind = m.group(1)
        loop = "for (int i%d_ = (%s); i%d_ < (%s); i%d_++) { const real_t %s = %s[VCHK(%s, i%d_)]; const _Bool v%d_ = ({ %s }); " % (k, i1, k, i2, k, var, a1, a1, k, k, body)
        if kind == "find_if":
            rep = "({ int r%d_ = (%s); %s if (v%d_) { r%d_ = i%d_; break; } } r%d_; })" % (k, i2, loop, k, k, k, k)
        elif kind == "all_of":
            rep = "({ _Bool r%d_ = 1; %s if (!v%d_) { r%d_ = 0; break; } } r%d_; })" % (k, loop, k, k, k)
        elif kind == "any_of":
            rep = "({ _Bool r%d_ = 0; %s if (v%d_) { r%d_ = 1; break; } } r%d_; })" % (k, loop, k, k, k)
        else:
            rep = "({ _Bool r%d_ = 1; %s if (v%d_) { r%d_ = 0; break; } } r%d_; })" % (k, loop, k, k, k)
        b = b[:m.start()] + rep + b[pc + 1:]
    rules.log.append(("CP.lambda_algorithms(%s)" % fname, k))

    def adj(m):
        (a1, i1), (a2, i2) = it(m.group(1)), it(m.group(2))
        return "ADJ_FIND_GE(%s, %s, %s)" % (a1, i1, i2)
    b = rules.sub("CP.adjacent_find", r"std::adjacent_find\(([^,()]+\(\)|\w+),\s*([^,()]+\(\)|\w+),\s*std::greater_equal<double>\(\)\)", adj, b)
    b = re.sub(r"\b(radii|angles)\.end\(\)", r"\1_size", b)
    b = re.sub(r"\b(radii|angles)\.begin\(\)", "0", b)
    b = rules.sub("CP.front", r"\b(radii|angles)\.front\(\)", r"\1[VCHK(\1, 0)]", b)
    b = rules.sub("CP.back", r"\b(radii|angles)\.back\(\)", r"\1[VCHK(\1, \1_size - 1)]", b)
    return b


def check_params_job(nrad, nang):
    rules, hashes = Rules("gridgen"), {}
    f = Src.get(REF).function("PolarGrid::checkParameters", must_params=["radii", "angles"])
    hashes["PolarGrid::checkParameters"] = sha(f["body"])
    b = translate_std_algorithms(f["body"], rules, "checkParameters")
    b = rules.sub("R8.throw", r"throw\s+std::(\w+)\(((?:[^;\"]|\"[^\"]*\")*)\);", "{ g_thrown = 1; return; }", b, expect="+")
    b = common_body_rewrites(b, rules, "R")
    if re.search(r"std::|\bauto\b|\.begin\(|\.end\(", b):
        raise ExtractError("checkParameters: unhandled construct `%s`" % re.search(r"std::\w+|\bauto\b|\.begin\(|\.end\(", b).group(0))
    fe = Src.get("include/common/equals.h").function("equals", must_params=["lhs", "rhs"])
    hashes["equals"] = sha(fe["body"])
    eb = rules.sub("CP.epsilon", r"std::numeric_limits<T>::epsilon\(\)", "V_EPSILON", fe["body"], expect=1)
    eb = common_body_rewrites(eb, rules, "R")
    if re.search(r"std::", eb):
        raise ExtractError("equals: unhandled construct")
    cap = max(nrad, nang) + 1
    c = [units.PRELUDE_R, CP_PRELUDE.replace("@CAP@", str(cap)), "static _Bool equals(const real_t lhs, const real_t rhs)\n{%s}\n" % eb,
         "static void checkParameters(void)   /* R3: the two vector parameters are the file-scope radii / angles */\n{%s}\n" % b]
    h = ["void harness(void) {", "  M_PI_ = nondet_real(); __CPROVER_assume(M_PI_ > 3 && M_PI_ < 4);", "  radii_size = %d; angles_size = %d;" % (nrad, nang)]
    h += ["  radii[%d] = nondet_real();" % i for i in range(nrad)] + ["  angles[%d] = nondet_real();" % j for j in range(nang)]
    h.append("  g_thrown = 0; checkParameters();")
    conj = []
    if nrad < 2:
        conj.append("0")
    conj += ["radii[%d] > 0" % i for i in range(nrad)] + ["radii[%d] < radii[%d]" % (i, i + 1) for i in range(nrad - 1)]
    if nang < 3:
        conj.append("0")
    conj += ["angles[%d] >= 0" % j for j in range(nang)] + ["angles[%d] < angles[%d]" % (j, j + 1) for j in range(nang - 1)]
    if nang >= 1:
        conj += ["equals(angles[0], 0)", "equals(angles[%d], 2 * M_PI_)" % (nang - 1)]
    h.append("  _Bool ok = %s;" % " && ".join(conj or ["1"]))
    h.append("  /* every angle has its antipode: theta + pi, reduced by 2 pi when it leaves [0, 2 pi) */")
    for j in range(nang):
        h.append("  { const real_t opp = angles[%d] + M_PI_ >= 2 * M_PI_ ? angles[%d] - M_PI_ : angles[%d] + M_PI_; ok = ok && (%s); }" % (
            j, j, j, " || ".join("equals(opp, angles[%d])" % q for q in range(nang))))
    h.append("  __CPROVER_assert(g_thrown == !ok, \"OBL:checkParameters_rejects_exactly_the_invalid_coordinate_arrays(monotone positive radii, angles 0..2pi increasing, antipode for every angle)\");")
    h.append("  __CPROVER_assert(M_PI_ != M_PI_, \"COVER:reached_end\");")
    h.append("}")
    j = Job("gridgen.checkParameters[radii=%d,angles=%d]" % (nrad, nang), "\n".join(c + h), "R", unwind=cap + 2, timeout=900,
            bounded="array sizes fixed (%d radii, %d angles); all coordinates symbolic reals" % (nrad, nang),
            functions=["PolarGrid::checkParameters", "equals"], covers={"COVER:reached_end"}, split=r"^OBL:|^COVER:", split_chunk=1, split_timeout=600,
            extra=["--max-field-sensitivity-array-size", "4096"])
    j.rules, j.hashes = rules, hashes
    return j


def check_params_configs(tier):
    return [(1, 3), (2, 2), (2, 3), (3, 5), (2, 6), (2, 7)] if tier == "quick" else [(1, 3), (2, 2), (2, 3), (3, 5), (2, 4), (2, 6), (2, 7), (3, 8), (2, 9)]


def configs(tier):
    q = [(a, b, d) for a in (1, 2, 3, 4) for b in (-1, 2, 3, 4) for d in (0, 1, 2) if (a - 1) + d <= 4 and (b if b >= 0 else a + 1) + d <= 6]
    if tier != "quick":
        q += [(a, b, d) for a in (1, 2, 3, 4, 5) for b in (-1, 2, 5) for d in (0, 1, 2, 3) if (a, b, d) not in q and a + d <= 6 and (b if b >= 0 else a + 1) + d <= 7]
    return q


def aniso_replay_cb(job, key, label, rec):
    """SAT counterexample (doubles R0, R, refinement radius) -> the real constructor under ASan + UBSan (native/replay_aniso.cpp)"""
    import vlib, os, glob, tempfile, shutil, subprocess
    m = re.search(r"nr_exp=(\d+),anisotropic_factor=(\d+)", job.name)
    v = vlib.last_values(rec)
    try:
        args = [repr(float(v["R0"])), repr(float(v["R"])), repr(float(v["refinement_radius"])), m.group(1), m.group(2)]
    except (KeyError, ValueError, AttributeError) as e:
        return {"status": "not-attempted", "detail": "counterexample values not recoverable: %r" % (e,)}
    w = tempfile.mkdtemp(prefix="gmgverif-aniso-")
    try:
        exe = os.path.join(w, "replay_aniso")
        srcs = sorted(glob.glob(os.path.join(vlib.REPO, "src/PolarGrid/*.cpp")))
        c = subprocess.run(["clang++", "-std=c++20", "-O1", "-g", "-DNDEBUG", "-fopenmp", "-fsanitize=address,undefined,float-cast-overflow",
                            "-fno-sanitize-recover=undefined", "-Wno-everything", "-I" + os.path.join(vlib.REPO, "include"),
                            os.path.join(vlib.VERIF, "native", "replay_aniso.cpp")] + srcs + ["-o", exe], capture_output=True, text=True, timeout=600)
        if c.returncode != 0:
            return {"status": "error", "detail": "replay driver did not compile: " + c.stderr[-600:]}
        p = subprocess.run([exe] + args, capture_output=True, text=True, timeout=120, env=dict(os.environ, OMP_WAIT_POLICY="passive"))
        out = (p.stdout + p.stderr)
        bad = p.returncode != 0 or "ERROR: AddressSanitizer" in out or "runtime error" in out
        key_lines = [l for l in out.splitlines() if re.search(r"ERROR: AddressSanitizer|runtime error|READ of|WRITE of|constructed|exception", l)]
        return {"status": "reproduced" if bad else "not-reproduced", "command": "replay_aniso " + " ".join(args), "detail": "\n".join(key_lines[:6])[:1500]}
    except subprocess.TimeoutExpired:
        return {"status": "error", "detail": "native replay timed out"}
    finally:
        shutil.rmtree(w, ignore_errors=True)


def replay_cb(job, key, label, rec):
    """exponents of the job -> the real generating constructor and coarseningGrid (native/replay_gridgen.cpp)"""
    import vlib
    if "anisotropic_window" in job.name:
        return aniso_replay_cb(job, key, label, rec)
    mc = re.search(r"checkParameters\[radii=(\d+),angles=(\d+)\]", job.name)
    if mc:
        return vlib.native_driver("replay_checkparams", [int(mc.group(1)), int(mc.group(2))])
    m = re.search(r"nr_exp=(-?\d+),ntheta_exp=(-?\d+),divideBy2=(\d+)", job.name)
    if not m:
        return None
    return vlib.native_driver("replay_gridgen", [int(m.group(1)), int(m.group(2)), int(m.group(3))])


def aniso_configs(tier):
    return [(4, 2), (5, 1), (3, 1)] if tier == "quick" else [(4, 2), (5, 1), (3, 1), (5, 3), (6, 2), (4, 3), (3, 2)]


def build_jobs(tier, seed, anisotropic=False):
    return [job_for(*cfg) for cfg in configs(tier)] + ([aniso_job(*cfg) for cfg in aniso_configs(tier)] +
                                                        [check_params_job(*cfg) for cfg in check_params_configs(tier)] if anisotropic else [])
