"""C14 -- tridiagonal line solvers: A x = b in exact arithmetic, repeated solves identical, memory safety.

Layer R (complete in the real-valued data, bounded in n): the verbatim bodies of
SymmetricTridiagonalSolver<T>::{solveInPlace, solveSymmetricTridiagonal, solveSymmetricCyclicTridiagonal} are
instantiated for one solver object (T = real_t) and executed for n = 2..NMAX with every matrix entry and right-hand
side a symbolic real.  Backward stability for SPD input is a rounding statement and is not decided."""
import re
from vlib import Src, Rules, Job, ExtractError, common_body_rewrites, sha
import units

HDR = "include/LinearAlgebra/symmetricTridiagonalSolver.h"
CLS = "SymmetricTridiagonalSolver<T>"
ACCESSORS = {
    "main_diagonal": ("assert(index>=0);assert(index<this->matrix_dimension_);returnthis->main_diagonal_values_[index];",
                      "main_diagonal_values_[TCHK(i, matrix_dimension_)]"),
    "sub_diagonal": ("assert(index>=0);assert(index<this->matrix_dimension_-1);returnthis->sub_diagonal_values_[index];",
                     "sub_diagonal_values_[TCHK(i, matrix_dimension_ - 1)]"),
}


def solver_unit(rules, hashes, nmax):
    src = Src.get(HDR)
    c = [units.PRELUDE_R]
    c.append("#define TCHK(i, n) (__CPROVER_assert((i) >= 0 && (i) < (n), \"source assert: index within matrix dimension\"), (i))")
    # the reference-returning accessors become lvalue macros carrying their two asserts (checked against the source text)
    for acc, (want, macro) in ACCESSORS.items():
        for occ in (0, 1):
            f = src.function("%s::%s" % (CLS, acc), occurrence=occ)
            if "".join(f["body"].split()) != want:
                raise ExtractError("accessor %s changed: %s" % (acc, f["body"]))
        c.append("#define %s(i) %s" % (acc, macro))
    for occ in (0, 1):
        f = src.function("%s::cyclic_corner_element" % CLS, occurrence=occ)
        if "".join(f["body"].split()) != "assert(is_cyclic_);returnthis->cyclic_corner_element_;":
            raise ExtractError("accessor cyclic_corner_element changed")
    c.append("#define cyclic_corner_element() (*(__CPROVER_assert(is_cyclic_, \"source assert: is_cyclic_\"), &cyclic_corner_element_))")
    c.append("static int matrix_dimension_; static real_t main_diagonal_values_[%d], sub_diagonal_values_[%d];" % (nmax, nmax))
    c.append("static real_t cyclic_corner_element_; static _Bool is_cyclic_, factorized_; static real_t gamma_;")
    c.append("static real_t x[%d], u[%d], scratch[%d];   /* R3: the T* parameters denote these file-scope arrays */" % (nmax, nmax, nmax))
    c.append("#define nullptr 0\n#define sol_rhs x\n#define temp1 u\n#define temp2 scratch")
    for m, params in (("solveSymmetricTridiagonal", ["x", "scratch"]), ("solveSymmetricCyclicTridiagonal", ["x", "u", "scratch"]),
                      ("solveInPlace", ["sol_rhs", "temp1", "temp2"])):
        f = src.function("%s::%s" % (CLS, m), must_params=params)
        hashes["SymmetricTridiagonalSolver::" + m] = sha(f["body"])
        body = f["body"]
        # precondition "no pivot breakdown" is stated by the source as assert(!equals(pivot, 0.0)): it is assumed by the
        # harness through the stored factors, so the tolerance predicate `equals` is read as exact equality here
        # `assert(!equals(pivot, 0.0))` is the source's statement of the precondition "no pivot breakdown": assumed
        body = rules.sub("R8b.pivot_precondition", r"assert\(!equals\(([^;]*?), 0\.0\)\);", r"__CPROVER_assume((\1) != 0);", body)
        body = common_body_rewrites(body, rules, "R")
        if m == "solveInPlace":
            body = rules.sub("R3.ptr_nonnull", r"assert\((sol_rhs|temp1|temp2) != nullptr\);", "", body, expect=3)
            body = rules.sub("R3.call_args", r"solveSymmetricCyclicTridiagonal\(sol_rhs, temp1, temp2\)", "solveSymmetricCyclicTridiagonal()", body, expect=1)
            body = rules.sub("R3.call_args", r"solveSymmetricTridiagonal\(sol_rhs, temp1\)", "solveSymmetricTridiagonal()", body, expect=1)
        c.append("static void %s(void)\n{%s}\n" % (m, body))
    c.insert(2, "#define EQUALS(a, b) ((a) == (b))\nstatic void solveSymmetricTridiagonal(void); static void solveSymmetricCyclicTridiagonal(void);")
    return c


def jobs_for(n, cyclic, nmax=8):
    rules, hashes = Rules("C14"), {}
    c = solver_unit(rules, hashes, nmax)
    h = ["static real_t D[%d], S[%d], B[%d], C, X1[%d];" % (n, n, n, n), "void harness(void) {",
         "  matrix_dimension_ = %d; is_cyclic_ = %d; factorized_ = 0; gamma_ = 0; C = nondet_real();" % (n, cyclic)]
    for i in range(n):
        h.append("  D[%d] = nondet_real(); B[%d] = nondet_real(); main_diagonal_values_[%d] = D[%d]; x[%d] = B[%d]; u[%d] = nondet_real(); scratch[%d] = nondet_real();" % ((i,) * 8))
    for i in range(n - 1):
        h.append("  S[%d] = nondet_real(); sub_diagonal_values_[%d] = S[%d];" % (i, i, i))
    h.append("  cyclic_corner_element_ = C;")
    h.append("  solveInPlace();")
    h.append("  __CPROVER_assert(factorized_, \"OBL:factorized_after_first_solve\");")
    h.append("  __CPROVER_assert(x[0] != x[0], \"COVER:first_solve_returned\");")
    # restriction of the input: the factorisation met no zero pivot / Sherman-Morrison denominator (true for every SPD matrix)
    for i in range(n):
        h.append("  __CPROVER_assume(main_diagonal_values_[%d] != 0);" % i)
    if cyclic:
        h.append("  __CPROVER_assume(gamma_ != 0);")
        h.append("  __CPROVER_assume(1 + u[0] + C / gamma_ * u[%d] != 0);" % (n - 1))
    # A x == b, row by row, A = the matrix the caller stored (for n == 2 the corner adds to the off-diagonal entry)
    for i in range(n):
        terms = ["D[%d] * x[%d]" % (i, i)]
        if i > 0:
            terms.append("S[%d] * x[%d]" % (i - 1, i - 1))
        if i < n - 1:
            terms.append("S[%d] * x[%d]" % (i, i + 1))
        if cyclic and i == 0:
            terms.append("C * x[%d]" % (n - 1))
        if cyclic and i == n - 1:
            terms.append("C * x[0]")
        h.append("  __CPROVER_assert(%s == B[%d], \"OBL:A_x_equals_b[row=%d]\");" % (" + ".join(terms), i, i))
    h.append("  __CPROVER_assert(x[0] != x[0], \"COVER:assumptions_satisfiable\");")
    # second solve with the same right-hand side on the now factorised object
    for i in range(n):
        h.append("  X1[%d] = x[%d]; x[%d] = B[%d]; u[%d] = nondet_real();" % (i, i, i, i, i))
    h.append("  solveInPlace();")
    for i in range(n):
        h.append("  __CPROVER_assert(x[%d] == X1[%d], \"OBL:repeated_solve_identical[row=%d]\");" % (i, i, i))
    h.append("}")
    j = Job("C14.%s[n=%d]" % ("cyclic" if cyclic else "tridiagonal", n), "\n".join(c + h), "R", unwind=n + 2, timeout=900,
            bounded="matrix dimension fixed n=%d; all entries, corner element and right-hand side symbolic reals" % n,
            functions=["SymmetricTridiagonalSolver::solveInPlace", "SymmetricTridiagonalSolver::solveSymmetricTridiagonal",
                       "SymmetricTridiagonalSolver::solveSymmetricCyclicTridiagonal"],
            covers={"COVER:first_solve_returned", "COVER:assumptions_satisfiable"}, split=r"^OBL:|^COVER:assumptions", split_timeout=300,
            extra=["--no-div-by-zero-check", "--max-field-sensitivity-array-size", "4096"])
    j.rules, j.hashes = rules, hashes
    return j


def diagonal_job(n):
    """DiagonalSolver<T>::solveInPlace (the line solver of the extrapolated smoothers' coarse lines): x_i * d_i == b_i"""
    rules, hashes = Rules("C14"), {}
    src = Src.get("include/LinearAlgebra/diagonalSolver.h")
    for occ in (0, 1):
        f = src.function("DiagonalSolver<T>::diagonal", occurrence=occ)
        if "".join(f["body"].split()) != "assert(index>=0);assert(index<this->matrix_dimension_);returnthis->diagonal_values_[index];":
            raise ExtractError("DiagonalSolver::diagonal changed")
    f = src.function("DiagonalSolver<T>::solveInPlace", must_params=["sol_rhs"])
    hashes["DiagonalSolver::solveInPlace"] = sha(f["body"])
    body = common_body_rewrites(f["body"], rules, "R")
    c = [units.PRELUDE_R,
         "#define diagonal(i) diagonal_values_[(__CPROVER_assert((i) >= 0, \"source assert: index >= 0\"), __CPROVER_assert((i) < matrix_dimension_, \"source assert: index < matrix_dimension_\"), (i))]",
         "static int matrix_dimension_; static real_t diagonal_values_[%d], sol_rhs[%d];   /* R3: the T* parameter denotes the file-scope array */" % (n, n),
         "static void solveInPlace(void)\n{%s}\n" % body,
         "static real_t D[%d], B[%d], X1[%d];" % (n, n, n), "void harness(void) {", "  matrix_dimension_ = %d;" % n]
    for i in range(n):
        c.append("  D[%d] = nondet_real(); B[%d] = nondet_real(); __CPROVER_assume(D[%d] != 0); diagonal_values_[%d] = D[%d]; sol_rhs[%d] = B[%d];" % ((i,) * 7))
    c.append("  solveInPlace();")
    for i in range(n):
        c.append("  __CPROVER_assert(D[%d] * sol_rhs[%d] == B[%d], \"OBL:diagonal_solve_A_x_equals_b[row=%d]\");" % (i, i, i, i))
        c.append("  __CPROVER_assert(diagonal_values_[%d] == D[%d], \"OBL:diagonal_solver_matrix_unchanged[row=%d]\");" % (i, i, i))
    for i in range(n):
        c.append("  X1[%d] = sol_rhs[%d]; sol_rhs[%d] = B[%d];" % (i, i, i, i))
    c.append("  solveInPlace();")
    for i in range(n):
        c.append("  __CPROVER_assert(sol_rhs[%d] == X1[%d], \"OBL:diagonal_repeated_solve_identical[row=%d]\");" % (i, i, i))
    c += ["  __CPROVER_assert(D[0] != D[0], \"COVER:reached_end\");", "}"]
    j = Job("C14.diagonal[n=%d]" % n, "\n".join(c), "R", unwind=n + 2, timeout=300,
            bounded="matrix dimension fixed n=%d; entries and right-hand side symbolic reals" % n,
            functions=["DiagonalSolver::solveInPlace", "DiagonalSolver::diagonal"], covers={"COVER:reached_end"}, extra=["--no-div-by-zero-check"])
    j.rules, j.hashes = rules, hashes
    return j


def build_jobs(tier, seed):
    ns = (2, 3, 4, 5) if tier == "quick" else (2, 3, 4, 5, 6, 7)
    return [jobs_for(n, cyc) for n in ns for cyc in (0, 1)] + [diagonal_job(n) for n in ((1, 4) if tier == "quick" else (1, 2, 4, 8))]


EXPLANATION = (
    "Layer R: the verbatim solver bodies (first call factorises in place, later calls substitute) are run for fixed dimensions n "
    "with all matrix entries, the cyclic corner and the right-hand side symbolic reals; obligations: A x == b row by row against the "
    "matrix the caller stored (cyclic case by Sherman-Morrison, n == 2 and n == 3 included), factorized_ set, a second solve with the "
    "same right-hand side returns the identical vector, every accessor assert and array bound. Inputs are restricted to those whose "
    "stored pivots / Sherman-Morrison denominators are non-zero (holds for every SPD matrix: textbook, not checked). Complete in "
    "data, BOUNDED in n. DiagonalSolver::solveInPlace: d_i x_i == b_i, matrix unchanged, repeated solve identical. Backward stability (rounding) not decided.")


def tridiag_replay_cb(job, key, label, rec):
    """CBMC's SMT back end does not print the real values of a counterexample; the replay runs the real
    SymmetricTridiagonalSolver<double> on the job's dimension / cyclic flag with a deterministic battery of SPD systems
    (native/replay_tridiag.cpp)"""
    import vlib
    m = re.search(r"C14\.(cyclic|tridiagonal)\[n=(\d+)\]", job.name)
    if not m:
        return None
    return vlib.native_driver("replay_tridiag", [int(m.group(2)), int(m.group(1) == "cyclic")])


def run(tier, seed, work):
    import vlib
    rep = vlib.Report("C14", tier, seed)
    jobs = build_jobs(tier, seed)
    vlib.run_jobs(jobs, work)
    rep.absorb(jobs, replay_cb=tridiag_replay_cb)
    rep.extraction = {"rules_fired": jobs[0].rules.summary(), "body_sha256_16": jobs[0].hashes}
    rep.trusted = ["double treated as mathematical real", "CBMC 6.11 + z3 5.1", "extractor rules", "SPD => no zero pivot (textbook)"]
    rep.assumptions = ["bounded in n (listed)", "division-by-zero checks replaced by the non-zero-pivot restriction"]
    return rep.finish("other", EXPLANATION, "cbmc unit.c --function harness --z3 --unwind N --unwinding-assertions [--property P --slice-formula]")


def replay(path):
    return 0
