"""C11 -- no data race in the parallel regions: every conflicting pair of accesses is ordered by a barrier.

The property is about ITERATIONS, not threads: two accesses can race only if they belong to different iterations of
worksharing loops that no barrier separates (DESIGN 2.5).  The extractor turns the pragma structure of a region into ghost
statements (`#pragma omp for` -> every iteration is a new task; loop end without `nowait`, `barrier`, region end -> phase end)
and wraps every subscript of the shared vectors; the ghost state records, per element, the task that wrote it and the task(s)
that read it in the current phase.  Obligations (checked by CBMC on the real text, concrete grid shapes, data irrelevant):
    a write meets no write and no read of ANOTHER task of the same phase; a read meets no write of another task.
This covers every thread count and every schedule because it never mentions threads; it is conservative for code that would
rely on two `nowait` loops being scheduled identically (none here)."""
import re
from vlib import Src, Rules, Job, ExtractError, match_close
import units, C03, C04, C08, smoother

RACE_PRELUDE = r"""
/* ---- ghost state of the race check ---- */
#define RACE_NARR 9
static int race_owner[RACE_NARR][RACE_MAXN], race_reader[RACE_NARR][RACE_MAXN];
static int race_task, race_next; static _Bool race_in_region;
enum { x_id = 0, temp_id = 1, result_id = 2, rhs_id = 3, solver_circle_id = 4, solver_radial_id = 5, scratch_id = 6, matrix_id = 7, shared_scalar_id = 8 };
enum { x_mode = 0, temp_mode = 1, result_mode = 1, rhs_mode = 0 };       /* 1: every subscript is (also) a write; 0: read only */
static void race_access(int arr, int idx, int is_write) {
    if (!race_in_region || race_task == 0) return;          /* sequential part or thread-private prologue of the region */
    __CPROVER_assert(0 <= idx && idx < RACE_MAXN, "race map index in range");
    if (is_write) {
        __CPROVER_assert(race_owner[arr][idx] == 0 || race_owner[arr][idx] == race_task, "OBL:no element is written by two iterations of one phase");
        __CPROVER_assert(race_reader[arr][idx] == 0 || race_reader[arr][idx] == race_task, "OBL:no element is written by one iteration and read by another in one phase");
        race_owner[arr][idx] = race_task;
    } else {
        __CPROVER_assert(race_owner[arr][idx] == 0 || race_owner[arr][idx] == race_task, "OBL:no element is read by one iteration and written by another in one phase");
        race_reader[arr][idx] = (race_reader[arr][idx] == 0 || race_reader[arr][idx] == race_task) ? race_task : -1;
    }
}
#define RACC(a, i) (race_access(a##_id, (i), a##_mode), (i))
#define RACE_W(a, i) race_access(a##_id, (i), 1)
#define RACE_R(a, i) race_access(a##_id, (i), 0)
static void RACE_PHASE_END(void) { for (int a = 0; a < RACE_NARR; a++) for (int i = 0; i < RACE_MAXN; i++) { race_owner[a][i] = 0; race_reader[a][i] = 0; } race_task = 0; }
#define RACE_REGION_BEGIN() do { race_in_region = 1; race_task = 0; } while (0)
#define RACE_REGION_END() do { RACE_PHASE_END(); race_in_region = 0; } while (0)
#define RACE_TASK_BEGIN() (race_task = ++race_next)
#define RACE_TASK_END() ((void)0)
"""

RACE_SOLVES = r"""
#undef VEC_MOVE_RANGE
#undef CONTRACT_TS_SOLVE
#undef CONTRACT_DS_SOLVE
#undef CONTRACT_LU_SOLVE
/* footprints of the line solves (include/LinearAlgebra/symmetricTridiagonalSolver.h, sparseLUSolver.h): the right-hand side
   range is read and overwritten, the solver object is written on its first solve (in-place factorisation) */
#define CONTRACT_TS_SOLVE(S, v, cur, start) do { for (int ts_k = 0; ts_k < (S).matrix_dimension_; ts_k++) RACE_W(v, (start) + ts_k); } while (0)
#define CONTRACT_DS_SOLVE(S, v, cur, start) do { for (int ts_k = 0; ts_k < (S).matrix_dimension_; ts_k++) RACE_W(v, (start) + ts_k); } while (0)
#define CONTRACT_LU_SOLVE(M, v, cur, start) do { for (int lu_k = 0; lu_k < (M).rows_; lu_k++) RACE_W(v, (start) + lu_k); } while (0)
#define VEC_MOVE_RANGE(src, s, e, dst, d) do { for (int vm_i = 0; vm_i < (e) - (s); vm_i++) { RACE_R(src, (s) + vm_i); RACE_W(dst, (d) + vm_i); } } while (0)
"""


DECL_RE = re.compile(r"\b(?:const\s+)?(?:unsigned\s+|long\s+)*(?:double|int|bool|size_t|auto|real_t|float|char|_Bool)\s*[&*]?\s*(\w+)\s*(?==|;|\[|,|\)|:)")
ASSIGN_RE = re.compile(r"(?:(?<=[;{}])|^)(\s*)([A-Za-z_]\w*)(\s*(?:=(?!=)|\+=|-=|\*=|/=|\+\+|--))", re.M)


def shared_scalar_writes(region, clause, rules, fname):
    """A scalar declared OUTSIDE a parallel region and assigned inside it is shared between the threads (unless a private /
    firstprivate / lastprivate / reduction clause names it): every such assignment becomes a ghost write of the variable, so the
    usual rule (no two iterations of one phase write the same object) decides whether it is a race."""
    declared = set(DECL_RE.findall(region))
    private = set()
    for m in re.finditer(r"\b(?:private|firstprivate|lastprivate|reduction)\s*\(([^)]*)\)", clause):
        private.update(x.strip() for x in m.group(1).split(":")[-1].split(","))
    names = {}

    def rep(m):
        v = m.group(2)
        if v in declared or v in private or v in ("return", "else", "case", "default", "break", "continue") or v.isupper():
            return m.group(0)
        k = names.setdefault(v, len(names))
        return "%srace_access(shared_scalar_id, %d, 1), %s%s" % (m.group(1), k, v, m.group(3))
    out = ASSIGN_RE.sub(rep, region)
    if names:
        rules.log.append(("R9'.shared_scalar_assignments(%s: %s)" % (fname, ",".join(sorted(names))), len(names)))
    return out


def omp_to_ghost(body, rules, fname):
    """R9': pragma structure -> ghost statements (the pragmas themselves are removed by R9 afterwards)."""
    out, pos, n = [], 0, {"for": 0, "nowait": 0, "parallel": 0}
    pat = re.compile(r"^[ \t]*#[ \t]*pragma[ \t]+omp[ \t]+([^\n]*?)(\\?)[ \t]*$", re.M)
    text = body
    while True:
        m = pat.search(text, pos)
        if not m:
            break
        kind = m.group(1).strip()
        if kind.startswith("parallel for") or kind.startswith("for"):
            combined = kind.startswith("parallel for")
            nowait = "nowait" in kind
            fm = re.compile(r"\bfor\s*\(").search(text, m.end())
            po = fm.end() - 1
            pc = match_close(text, po, "(", ")")
            bo = text.index("{", pc)
            if text[pc + 1:bo].strip():
                raise ExtractError("%s: worksharing loop body is not a block" % fname)
            bc = match_close(text, bo, "{", "}")
            head = ("RACE_REGION_BEGIN(); " if combined else "")
            tail = " RACE_TASK_END(); }" + ("" if nowait else " RACE_PHASE_END();") + (" RACE_REGION_END();" if combined else "")
            inner = shared_scalar_writes(text[bo + 1:bc], kind, rules, fname) if combined else text[bo + 1:bc]
            text = text[:m.start()] + head + text[m.end():bo + 1] + " RACE_TASK_BEGIN();" + inner + tail + text[bc + 1:]
            n["for"] += 1
            n["nowait"] += 1 if nowait else 0
            pos = m.start()
        elif kind.startswith("parallel"):
            bo = text.index("{", m.end())
            if text[m.end():bo].strip():
                raise ExtractError("%s: parallel region is not a block" % fname)
            bc = match_close(text, bo, "{", "}")
            inner = shared_scalar_writes(text[bo + 1:bc], kind, rules, fname)
            text = text[:m.start()] + text[m.end():bo + 1] + " RACE_REGION_BEGIN();" + inner + " RACE_REGION_END(); }" + text[bc + 1:]
            bc = bo + 1 + len(" RACE_REGION_BEGIN();") + len(inner)
            n["parallel"] += 1
            pos = m.start()
        elif kind.startswith("barrier"):
            text = text[:m.start()] + "RACE_PHASE_END();" + text[m.end():]
            pos = m.start()
        else:
            raise ExtractError("%s: unsupported OpenMP construct `%s`" % (fname, kind))
    for k, v in n.items():
        rules.log.append(("R9'.omp_%s(%s)" % (k, fname), v))
    return text, n


def scratch_sharing(body, fname):
    """which solver scratch vectors are declared OUTSIDE the parallel region (shared between threads)?"""
    pm = re.search(r"#\s*pragma\s+omp\s+parallel\b(?!\s+for)", body)
    shared = []
    for m in re.finditer(r"Vector<double>\s+(circle_solver_storage_1|circle_solver_storage_2|radial_solver_storage)\(", body):
        if pm is None or m.start() < pm.start():
            shared.append(m.group(1))
    return shared


def smoother_race_unit(cls, rules, hashes, nr, nt, sweep):
    cfg = smoother.CFG[cls]
    info = {}
    orig_emit = units.emit_class_methods

    def emit(clsname, methods, rules_, layer, hashes_, **kw):
        pre = kw.get("pre_rewrite")

        def pre2(m, body, r):
            if m == sweep:
                info["shared_scratch"] = scratch_sharing(body, m)
                body, info["omp"] = omp_to_ghost(body, r, "%s::%s" % (clsname, m))
                # the cyclic (circle) solver uses its first scratch vector as the Sherman-Morrison vector u: a write per solve
                body = r.sub("C11.scratch_access", r"(solveCircleSection\([^;]*?,\s*(\w+),\s*(\w+)\)\s*;)",
                             lambda q: q.group(1) + (" RACE_W(scratch, 0);" if q.group(2) in info["shared_scratch"] else ""), body)
            if pre:
                body = pre(m, body, r)
            if m in ("applyAscOrthoCircleSection", "applyAscOrthoRadialSection"):
                body, k = units.wrap_subscripts(body, ["temp", "x"], "RACC(%s, %s)")
                r.log.append(("C11.subscripts_wrapped(%s)" % m, k))
            return body
        kw["pre_rewrite"] = pre2
        return orig_emit(clsname, methods, rules_, layer, hashes_, **kw)
    units.emit_class_methods = emit
    try:
        c = smoother.smoother_unit(cls, rules, hashes, nr, nt)
    finally:
        units.emit_class_methods = orig_emit
    text = "\n".join(c)
    # subscripts inside the NODE_APPLY_ASC_ORTHO_* macros
    for mn in cfg["apply_macros"]:
        a = text.index("#define " + mn)
        b = text.index("} while (0)", a)
        seg, k = units.wrap_subscripts(text[a:b], ["temp", "x"], "RACC(%s, %s)")
        rules.log.append(("C11.subscripts_wrapped(%s)" % mn, k))
        text = text[:a] + seg + text[b:]
    # ghost prelude before the first extracted class, footprint versions of the solve contracts after the smoother prelude
    text = text.replace("/* ======== class %s ======== */" % cls, RACE_SOLVES + "\n/* ======== class %s ======== */" % cls, 1)
    text = text.replace("/* ---- generated prelude", "#define RACE_MAXN %d\n%s\n/* ---- generated prelude" % (max(nr * nt, nr, nt) + 1, RACE_PRELUDE), 1)
    return text, info


def residual_race_unit(rules, hashes, nr, nt):
    orig_emit = units.emit_class_methods
    info = {}

    def emit(clsname, methods, rules_, layer, hashes_, **kw):
        def pre2(m, body, r):
            if m == "computeResidual":
                body, info[clsname] = omp_to_ghost(body, r, "%s::%s" % (clsname, m))
            if m in ("applyCircleSection", "applyRadialSection"):
                body, k = units.wrap_subscripts(body, ["result", "x"], "RACC(%s, %s)")
            return body
        kw["pre_rewrite"] = pre2
        return orig_emit(clsname, methods, rules_, layer, hashes_, **kw)
    units.emit_class_methods = emit
    try:
        c = C03.residual_unit(rules, hashes, nr, nt)
    finally:
        units.emit_class_methods = orig_emit
    text = "\n".join(c)
    for mn in ("NODE_APPLY_A_GIVE", "NODE_APPLY_RESIDUAL_TAKE"):
        a = text.index("#define " + mn)
        b = text.index("} while (0)", a)
        seg, k = units.wrap_subscripts(text[a:b], ["result", "x"], "RACC(%s, %s)")
        rules.log.append(("C11.subscripts_wrapped(%s)" % mn, k))
        text = text[:a] + seg + text[b:]
    text = text.replace("/* ---- generated prelude", "#define RACE_MAXN %d\n%s\n/* ---- generated prelude" % (nr * nt + 1, RACE_PRELUDE), 1)
    return text, info


def jobs_for_smoother(cls, sweep, nr, nt, nsc, dirbc):
    rules, hashes = Rules("C11"), {}
    N = nr * nt
    text, info = smoother_race_unit(cls, rules, hashes, nr, nt, sweep)
    h = ["static void setup(void) {", units.grid_setup_concrete("grid_", nr, nt, nsc, antipodal=True)]
    h += C03.cache_setup(N, nr, nt, 1, 1)
    h.append("  DirBC_Interior_ = %d; result_size = rhs_size = x_size = temp_size = %d; verif_omp_max_threads = 4;" % (dirbc, N))
    h += smoother.allocation(cls, nr, nt, nsc, dirbc, rules)
    h.append("}")
    h += ["void harness(void) {", "  setup(); g_mode = 0; g_target_start = -1;",
          "  for (int k = 0; k < %d; k++) { x[k] = nondet_real(); rhs[k] = nondet_real(); temp[k] = nondet_real(); }" % N,
          "  %s_%s__impl();" % (cls, sweep),
          "  __CPROVER_assert(race_next >= %d, \"OBL:every worksharing loop was entered (%s iterations counted)\");" % (nsc + nt, "tasks"),
          "  __CPROVER_assert(0, \"COVER:reached_end\");", "}"]
    tag = "[%s::%s,nr=%d,nt=%d,nsc=%d,DirBC=%d]" % (cls, sweep, nr, nt, nsc, dirbc)
    j = Job("C11.race" + tag, text + "\n" + "\n".join(h), "R", unwind=max(N, 5 * nt) + 3, timeout=900,
            bounded="grid shape fixed %dx%d split %d; iteration-level race check, all thread counts and schedules" % (nr, nt, nsc),
            functions=["%s::%s" % (cls, sweep), "%s::applyAscOrthoCircleSection" % cls, "%s::applyAscOrthoRadialSection" % cls,
                       "%s::solveCircleSection" % cls, "%s::solveRadialSection" % cls],
            covers={"COVER:reached_end"}, extra=["--max-field-sensitivity-array-size", "8192"])
    j.rules, j.hashes, j.info = rules, hashes, info
    return [j]


def jobs_for_residual(nr, nt, nsc, dirbc):
    rules, hashes = Rules("C11"), {}
    N = nr * nt
    text, info = residual_race_unit(rules, hashes, nr, nt)
    jobs = []
    for cls in ("ResidualGive", "ResidualTake"):
        h = ["static void setup(void) {", units.grid_setup_concrete("grid_", nr, nt, nsc, antipodal=True)]
        h += C03.cache_setup(N, nr, nt, 1, 1)
        h.append("  DirBC_Interior_ = %d; result_size = rhs_size = x_size = %d; verif_omp_max_threads = 4;" % (dirbc, N))
        h.append("}")
        h += ["void harness(void) {", "  setup();",
              "  for (int k = 0; k < %d; k++) { x[k] = nondet_real(); rhs[k] = nondet_real(); result[k] = nondet_real(); }" % N,
              "  %s_computeResidual__impl();" % cls,
              "  __CPROVER_assert(race_next >= %d, \"OBL:every worksharing loop was entered\");" % (nsc + (nt if cls == "ResidualTake" else nt - nt % 3 - 2)),
              "  __CPROVER_assert(0, \"COVER:reached_end\");", "}"]
        tag = "[%s::computeResidual,nr=%d,nt=%d,nsc=%d,DirBC=%d]" % (cls, nr, nt, nsc, dirbc)
        j = Job("C11.race" + tag, text + "\n" + "\n".join(h), "R", unwind=N + 3, timeout=900,
                bounded="grid shape fixed %dx%d split %d; iteration-level race check" % (nr, nt, nsc),
                functions=["%s::computeResidual" % cls, "%s::applyCircleSection" % cls, "%s::applyRadialSection" % cls],
                covers={"COVER:reached_end"}, extra=["--max-field-sensitivity-array-size", "8192"])
        j.rules, j.hashes, j.info = rules, hashes, info
        jobs.append(j)
    return jobs


# ---- grid transfer operators (Interpolation::apply*): every operator is one parallel region with two nowait loops ----------
def jobs_for_interpolation(nr, nt, nsc_f, nsc_c):
    rules, hashes, info = Rules("C11"), {}, {}
    ncr, nct = (nr + 1) // 2, nt // 2
    NF, NC = nr * nt, ncr * nct
    files = dict(C08.FILES)
    files.update(C08.FMG_FILE)

    def pre(name, body, r):
        if name in files:
            body, info[name] = omp_to_ghost(body, r, "Interpolation::" + name)
        body, k = units.wrap_subscripts(body, ["result", "x"], "RACC(%s, %s)")
        r.log.append(("C11.subscripts_wrapped(%s)" % name, k))
        return body
    c = ["#define RACE_MAXN %d" % (NF + 1), RACE_PRELUDE, units.PRELUDE_R, units.POLARGRID_STRUCT, C08.LEVEL_PRELUDE,
         "static real_t result[%d], x[%d]; static int result_size, x_size;\n" % (NF, NF)]
    c.append(units.polargrid_instance("fineGrid", "R", rules, nr, nt, hashes))
    c.append(units.polargrid_instance("coarseGrid", "R", rules, ncr, nct, hashes))
    c.append("#define grid() dummy_grid_member_never_used\n")
    c.append(C08.interpolation_unit("R", rules, hashes, files=files, pre=pre))
    c.append("static void setup(void) {")
    c.append(units.grid_setup_concrete("fineGrid", nr, nt, nsc_f))
    c.append(units.grid_setup_concrete("coarseGrid", ncr, nct, nsc_c))
    c.append("}")
    jobs = []
    for fn, (rel, macros, binding) in files.items():
        to_fine = binding == "coarse_from"
        h = ["void harness(void) {", "  setup();",
             "  fromLevel = %s; toLevel = %s; x_size = %d; result_size = %d;" % (("lvlC", "lvlF", NC, NF) if to_fine else ("lvlF", "lvlC", NF, NC)),
             "  for (int k = 0; k < %d; k++) { x[k] = nondet_real(); result[k] = nondet_real(); }" % NF,
             "  Interpolation_%s(fromLevel, toLevel, result, x);" % fn,
             "  __CPROVER_assert(race_next >= %d, \"OBL:every worksharing loop was entered\");" % ((nsc_f + nt) if to_fine else (nsc_c + nct)),
             "  __CPROVER_assert(0, \"COVER:reached_end\");", "}"]
        j = Job("C11.race[Interpolation::%s,nr=%d,nt=%d,nscF=%d,nscC=%d]" % (fn, nr, nt, nsc_f, nsc_c), "\n".join(c + h), "R",
                unwind=max(NF, nr, nt) + 3, timeout=600,
                bounded="grid shapes fixed: fine %dx%d split %d, coarse %dx%d split %d; iteration-level race check" % (nr, nt, nsc_f, ncr, nct, nsc_c),
                functions=["Interpolation::" + fn], covers={"COVER:reached_end"}, extra=["--max-field-sensitivity-array-size", "8192"])
        j.rules, j.hashes, j.info = rules, hashes, info
        jobs.append(j)
    return jobs


# ---- assembly of the coarse direct-solver matrix (DirectSolver{Give,Take}CustomLU::buildSolverMatrix, multi-threaded branch) -----
def jobs_for_assembly(strat, nr, nt, nsc, dirbc):
    rules, hashes, info = Rules("C11"), {}, {}
    N = nr * nt
    d = C04.STRATS[strat]["dir"]
    c = C04.solver_unit(strat, rules, hashes, nr, nt)
    text = "\n".join(c)
    # every access to a CSR slot (column index or value, `=` or `+=`) is a write of that slot by the current iteration
    want = "    (m).row_start_indices_[(row)] + (nz))"
    if text.count(want) != 1:
        raise ExtractError("CSR_SLOT definition changed")
    text = text.replace(want, "    RACE_SLOT((m).row_start_indices_[(row)] + (nz)))")
    text = text.replace("/* ---- generated prelude", "#define RACE_MAXN %d\n%s\n#define RACE_SLOT(s) (race_access(matrix_id, (s), 1), (s))\n/* ---- generated prelude" % (9 * N + 1, RACE_PRELUDE), 1)
    # the multi-threaded branch with its pragma structure as ghost statements
    f = Src.get("src/DirectSolver/%s/buildSolverMatrix.cpp" % d).function("%s::buildSolverMatrix" % d)
    body = f["body"]
    i = body.find("else {", body.find("omp_get_max_threads() == 1"))
    if i < 0:
        raise ExtractError("parallel branch of buildSolverMatrix not found")
    bo = body.index("{", i)
    bc = match_close(body, bo, "{", "}")
    par, info["omp"] = omp_to_ghost(body[bo:bc + 1], rules, "%s::buildSolverMatrix" % d)
    from vlib import common_body_rewrites
    par = common_body_rewrites(par, rules, "R")
    par = re.sub(r"\bbuildSolverMatrix(Circle|Radial)Section\((\w+|\d+),\s*solver_matrix\)", r"%s_buildSolverMatrix\1Section__impl(\2)" % d, par)
    if "solver_matrix" in par:
        raise ExtractError("unhandled use of solver_matrix in the parallel branch")
    h = ["static void build_parallel_region(void)\n%s\n" % par, "static void setup(void) {", units.grid_setup_concrete("grid_", nr, nt, nsc, antipodal=True)]
    h += C03.cache_setup(N, nr, nt, 1, 1)
    h.append("  DirBC_Interior_ = %d; result_size = rhs_size = x_size = %d; verif_omp_max_threads = 4;" % (dirbc, N))
    h.append("}")
    h += ["void harness(void) {", "  setup();", "  CSR_construct(%d, %d);" % (N, N),
          "  for (int s = 0; s < %d; s++) { solver_matrix.column_indices_[s] = -1; solver_matrix.values_[s] = 0; }" % (9 * N),
          "  build_parallel_region();",
          "  __CPROVER_assert(race_next >= %d, \"OBL:every worksharing loop was entered\");" % (nsc + (nt if strat == "Take" else nt - nt % 3 - 2)),
          "  __CPROVER_assert(0, \"COVER:reached_end\");", "}"]
    j = Job("C11.race[%s::buildSolverMatrix,nr=%d,nt=%d,nsc=%d,DirBC=%d]" % (d, nr, nt, nsc, dirbc), text + "\n" + "\n".join(h), "R",
            unwind=9 * N + 3, timeout=900,
            bounded="grid shape fixed %dx%d split %d DirBC=%d; iteration-level race check on the CSR slots" % (nr, nt, nsc, dirbc),
            functions=["%s::buildSolverMatrix" % d, "%s::buildSolverMatrixCircleSection" % d, "%s::buildSolverMatrixRadialSection" % d],
            covers={"COVER:reached_end"}, split=r"^OBL:|^COVER:|race map index", split_chunk=1, split_timeout=600, skip_batch=True,
            extra=["--max-field-sensitivity-array-size", "8192"])
    j.rules, j.hashes, j.info = rules, hashes, info
    return [j]


REGIONS = [("SmootherGive", "smoothingForLoop"), ("SmootherTake", "smoothing"),
           ("ExtrapolatedSmootherGive", "extrapolatedSmoothingForLoop"), ("ExtrapolatedSmootherTake", "extrapolatedSmoothing")]


def build_jobs(tier, seed):
    jobs = []
    std_shapes = [(7, 8, 4), (6, 4, 3), (9, 12, 6)] if tier == "quick" else [(7, 8, 4), (6, 4, 3), (9, 12, 6), (8, 8, 5), (9, 8, 2), (7, 16, 3), (10, 12, 7)]
    ext_shapes = [(7, 8, 4), (9, 4, 5)] if tier == "quick" else [(7, 8, 4), (9, 4, 5), (9, 12, 6), (7, 8, 3), (11, 8, 7)]
    res_shapes = [(5, 6, 2), (7, 8, 4), (6, 10, 3), (5, 6, 0), (5, 8, 0), (6, 4, 6)] if tier == "quick" else [(5, 6, 2), (7, 8, 4), (6, 10, 3), (5, 6, 0), (5, 8, 0), (6, 4, 6), (8, 12, 4), (5, 10, 0), (5, 12, 0), (5, 14, 1)]
    for (cls, sweep) in REGIONS:
        for (nr, nt, nsc) in (ext_shapes if cls.startswith("Extrapolated") else std_shapes):
            jobs += jobs_for_smoother(cls, sweep, nr, nt, nsc, 0)
    for (nr, nt, nsc) in res_shapes:
        jobs += jobs_for_residual(nr, nt, nsc, 0)
    int_shapes = [(5, 4, 2, 1), (7, 6, 3, 1), (5, 6, 0, 0), (5, 4, 5, 3)] if tier == "quick" else [(5, 4, 2, 1), (7, 6, 3, 1), (5, 6, 0, 0), (5, 4, 5, 3), (9, 8, 4, 2), (7, 12, 2, 1), (9, 4, 7, 4)]
    for sh in int_shapes:
        jobs += jobs_for_interpolation(*sh)
    asm_shapes = [(5, 6, 2), (5, 4, 3), (6, 6, 0), (5, 8, 5)] if tier == "quick" else [(5, 6, 2), (5, 4, 3), (6, 6, 0), (5, 8, 5), (7, 6, 3), (5, 10, 2), (6, 8, 0), (5, 12, 1)]
    for (nr, nt, nsc) in asm_shapes:
        for strat in ("Take", "Give"):
            for dirbc in ((0, 1) if (nr, nt, nsc) == asm_shapes[0] else (0,)):
                jobs += jobs_for_assembly(strat, nr, nt, nsc, dirbc)
    return jobs


EXPLANATION = (
    "Iteration-level race check (DESIGN 2.5) executed by CBMC on the REAL text of the parallel regions, with the OpenMP structure "
    "turned into ghost statements by rule R9' (every iteration of a worksharing loop is a task; a loop without nowait, a barrier and "
    "the end of the region end a phase) and every subscript of the shared vectors wrapped. Ghost state per element and phase: writer "
    "task, reader task(s). Obligations: no write/write, write/read or read/write pair from two different iterations within one phase, "
    "for the vectors x / temp / result, the right-hand-side ranges and the scratch storage of the line solves (shared iff declared "
    "outside the region). Regions covered: ResidualGive/ResidualTake::computeResidual, SmootherGive::smoothingForLoop, "
    "SmootherTake::smoothing, ExtrapolatedSmootherGive::extrapolatedSmoothingForLoop, ExtrapolatedSmootherTake::extrapolatedSmoothing "
    "(stride-2/4 phases, nowait overlaps, 3-colour remainder rule), the six grid-transfer operators Interpolation::apply{Prolongation, "
    "Restriction, ExtrapolatedProlongation, ExtrapolatedRestriction, Injection, FMGInterpolation} (vectors result / x), and the "
    "multi-threaded branch of DirectSolver{Give,Take}CustomLU::buildSolverMatrix (every CSR slot access is a write of that slot; F15 "
    "recorded for the radial-only grid), on concrete shapes covering circle counts mod 2,3,4 and ntheta mod "
    "3,4. Valid for every thread count and schedule (never mentions threads). NOT covered (reported, not claimed race-free): smoother "
    "matrix assembly (buildAscMatrices), LevelCache constructors, rhs build, vector kernels, the value-zeroing loop of buildSolverMatrix, "
    "the task-based variants (unused), the MUMPS/COO solver variants (not built), the OpenMP runtime itself. Bounded in grid shape.")
NOT_COVERED = ["buildAscMatrices (4 smoothers)", "LevelCache constructors", "build_rhs_f / discretize_rhs_f",
               "vector_operations.h kernels (reduction clauses trusted)", "task_parallelization.cpp variants (not called)",
               "DirectSolverGive/DirectSolverTake (MUMPS / COO variants, not built)", "applySymmetryShift (MUMPS only)"]


def run(tier, seed, work):
    import vlib
    rep = vlib.Report("C11", tier, seed)
    jobs = build_jobs(tier, seed)
    vlib.run_jobs(jobs, work)
    rep.absorb(jobs)
    rep.extraction = {"rules_fired": jobs[0].rules.summary(), "body_sha256_16": jobs[0].hashes,
                      "omp_structure": {j.name: getattr(j, "info", {}) and {k: v for k, v in j.info.items()} for j in jobs[:6]}}
    rep.trusted = ["OpenMP semantics of for / nowait / barrier / parallel as encoded by rule R9'", "CBMC 6.11", "extractor rules",
                   "footprints of the replaced line solves (rhs range, own solver object, first scratch vector of the cyclic solver)"]
    rep.assumptions = ["shape-bounded", "regions_not_covered: " + "; ".join(NOT_COVERED)]
    return rep.finish("other", EXPLANATION, "cbmc unit.c --function harness --z3 --unwind N --unwinding-assertions")


def replay(path):
    return 0
