"""C19 (part) -- shipped test problems: the algebraically decidable clauses.

What a contract over one call can say about closed forms in sin / cos / exp / tanh / atan / sqrt / pow without calculus:
  (a) boundary data == exact solution: for every (exact solution, boundary condition) pair that select_test_case.cpp
      instantiates together, u_D(Rmax, theta, s, c) and u_D_Interior(R0, theta, s, c) equal exact_solution there, for every
      theta, s, c and every 0 < R0 < Rmax;
  (b) every `gyro` density profile has alpha(r) * beta(r) == 1 for all r;
  (c) the four Jacobian functions of the geometries whose mapping is a polynomial of degree <= 2 in r and in
      (sin theta, cos theta) -- Circular, Shafranov -- are the partial derivatives of the mapping.  Proof rule (stated, textbook):
      for a polynomial p of degree <= 2, p'(t) == (p(t+h) - p(t-h)) / (2h) for every h != 0; degree <= 2 <=> third finite
      difference vanishes (checked); d/dtheta F(r, sin, cos) = cos * dF/dsin - sin * dF/dcos (chain rule; F must not read
      theta itself: checked).
Transcendental functions are UNINTERPRETED (same symbol on both sides); the only facts about them that are used are listed
as axioms and instantiated at the calls the code actually makes: exp(x) * exp(-x) == 1, pow(x, -1) == 1 / x; pow(x, n) with an
integral literal n >= 0 is exact (repeated multiplication).
  (d) every constructor of the 100+ input-function classes stores each parameter in the member of the same name (a class that
      drops a geometry / profile parameter evaluates its closed form for other parameters than the rest of the triple).
  (e) GMGPolar::selectTestCase, for every value of the four option integers: throws or selects five classes of the same problem /
      profile / geometry as the options, constructed with the solver's parameters.
NOT decided (no contract expresses differentiation of these forms): source term == -div(alpha grad u) + beta u for the
64 source-term classes, Jacobians of the Czarny and Culham geometries."""
import re
from vlib import Src, Rules, Job, ExtractError, common_body_rewrites, sha, match_close, split_top

PRELUDE = r"""
typedef __CPROVER_rational real_t;
real_t nondet_real(void);
static real_t g_one;     /* == 1 (assumed by the harness): keeps literal arithmetic symbolic (CBMC 6.11 crashes when folding a negative rational constant) */
static real_t RQ(int a, int b) { real_t x = a; real_t y = b; return x / y * g_one; }
real_t __CPROVER_uninterpreted_sin(real_t); real_t __CPROVER_uninterpreted_cos(real_t); real_t __CPROVER_uninterpreted_tanh(real_t);
real_t __CPROVER_uninterpreted_atan(real_t); real_t __CPROVER_uninterpreted_sqrt(real_t); real_t __CPROVER_uninterpreted_exp(real_t);
#define v_sin(x) __CPROVER_uninterpreted_sin(x)
#define v_cos(x) __CPROVER_uninterpreted_cos(x)
#define v_tanh(x) __CPROVER_uninterpreted_tanh(x)
#define v_atan(x) __CPROVER_uninterpreted_atan(x)
/* sqrt logs its calls: the harness instantiates sqrt(x)^2 == x, sqrt(x) >= 0 at exactly these calls (x >= 0 assumed there) */
static real_t sqrt_arg[16], sqrt_val[16]; static int sqrt_n;
static real_t v_sqrt(real_t x) { real_t v = __CPROVER_uninterpreted_sqrt(x); __CPROVER_assert(sqrt_n < 16, "harness capacity"); sqrt_arg[sqrt_n] = x; sqrt_val[sqrt_n] = v; sqrt_n++; return v; }
static void assume_sqrt_axioms(void) { for (int i = 0; i < sqrt_n; i++) __CPROVER_assume(sqrt_arg[i] >= 0 && sqrt_val[i] >= 0 && sqrt_val[i] * sqrt_val[i] == sqrt_arg[i]); }
/* exp and pow log their calls so that the harness can instantiate the two axioms at exactly these calls */
#define LOGN 16
static real_t exp_arg[LOGN], exp_val[LOGN], pow_arg[LOGN], pow_val[LOGN]; static int pow_exp[LOGN], exp_n, pow_n;
static real_t v_exp(real_t x) { real_t v = __CPROVER_uninterpreted_exp(x); __CPROVER_assert(exp_n < LOGN, "harness capacity"); exp_arg[exp_n] = x; exp_val[exp_n] = v; exp_n++; return v; }
/* pow with an integral literal exponent is exact: repeated multiplication for n >= 0; n == -1 is the reciprocal (logged, axiom below) */
static real_t v_powi(real_t x, int n) {
    __CPROVER_assert(n >= -1 && n <= 8, "harness: pow exponent within the modelled range");
    if (n >= 0) { real_t v = g_one; for (int k = 0; k < n; k++) v = v * x; return v; }
    real_t v = nondet_real(); __CPROVER_assert(pow_n < LOGN, "harness capacity"); pow_arg[pow_n] = x; pow_val[pow_n] = v; pow_exp[pow_n] = n; pow_n++; return v; }
static void assume_axioms(void) {
    for (int i = 0; i < exp_n; i++) for (int j = 0; j < exp_n; j++)
        if (exp_arg[i] == -exp_arg[j]) __CPROVER_assume(exp_val[i] * exp_val[j] == 1);           /* exp(x) * exp(-x) == 1 */
    for (int i = 0; i < pow_n; i++) if (pow_exp[i] == -1) __CPROVER_assume(pow_arg[i] * pow_val[i] == 1);   /* pow(x, -1) == 1 / x, x != 0 */
}
static real_t M_PI_;
#define M_PI M_PI_
static real_t Rmax, inverse_aspect_ratio_epsilon, ellipticity_e, elongation_kappa, shift_delta, alpha_jump;
static void common_setup(void) {
    g_one = nondet_real(); __CPROVER_assume(g_one == 1);
    M_PI_ = nondet_real(); __CPROVER_assume(M_PI_ > 3 && M_PI_ < 4);
    Rmax = nondet_real(); __CPROVER_assume(Rmax > 0);
    inverse_aspect_ratio_epsilon = nondet_real(); ellipticity_e = nondet_real(); elongation_kappa = nondet_real(); shift_delta = nondet_real(); alpha_jump = nondet_real();
}
"""

MATH = ("sin", "cos", "tanh", "atan", "exp")


def closed_form(rel, qual, rules, hashes, cname, params, prefix_members=()):
    """one member function returning a closed form -> `static real_t cname(params)`"""
    f = Src.get(rel).function(qual, must_params=params)
    hashes[qual] = sha(f["body"])
    b = f["body"]
    # pow(x, <integral literal>) -> v_powi(x, n)
    out, pos = [], 0
    for m in re.finditer(r"(?<![\w.])pow\s*\(", b):
        if m.start() < pos:
            raise ExtractError("%s: nested pow" % qual)
        po = m.end() - 1
        pc = match_close(b, po, "(", ")")
        args = split_top(b[po + 1:pc], ",")
        if len(args) != 2:
            raise ExtractError("%s: pow with %d arguments" % (qual, len(args)))
        e = args[1].strip()
        me = re.fullmatch(r"(\d+)\.0*|\(double\)\s*\(\(\s*(-?\d+)\s*\)\)", e)
        if not me:
            raise ExtractError("%s: pow exponent `%s` is not an integral literal" % (qual, e))
        n = int(me.group(1) if me.group(1) is not None else me.group(2))
        out.append(b[pos:m.start()] + "v_powi(" + args[0] + ", %d)" % n)
        pos = pc + 1
        rules.log.append(("C19.pow_int_exponent(%s)" % qual, 1))
    b = "".join(out) + b[pos:]
    if re.search(r"(?<![\w.])pow\s*\(", b):
        raise ExtractError("%s: pow inside pow argument" % qual)
    b = rules.sub("C19.math", r"(?<![\w.:])(?:std::)?(%s)\s*\(" % "|".join(MATH), r"v_\1(", b)
    b = common_body_rewrites(b, rules, "R")
    for mname in prefix_members:
        b = re.sub(r"\b%s\b" % mname, "%s_%s" % (cname.split("__")[0], mname), b)
    if re.search(r"std::|->|\bthis\b|\bauto\b", b):
        raise ExtractError("%s: unhandled construct" % qual)
    ptxt = ", ".join("const real_t %s" % p for p in params) or "void"
    ret = "void" if f["ret"].split()[-1] == "void" else "real_t"
    return "static %s %s(%s)\n{%s}\n" % (ret, cname, ptxt, b)


ARGS4 = ["r", "theta", "sin_theta", "cos_theta"]


def class_unit(kind_dir, cls, fname, methods, rules, hashes):
    rel = "src/InputFunctions/%s/%s.cpp" % (kind_dir, fname)
    text = Src.get(rel).text
    c = []
    has_xi = re.search(r"\bfactor_xi\b", text) is not None
    if has_xi:
        c.append("static real_t %s_factor_xi;" % cls)
        c.append(closed_form(rel, "%s::initializeGeometry" % cls, rules, hashes, "%s__initializeGeometry" % cls, [], prefix_members=("factor_xi",)))
    for m in methods:
        c.append(closed_form(rel, "%s::%s" % (cls, m), rules, hashes, "%s__%s" % (cls, m), ARGS4, prefix_members=("factor_xi",) if has_xi else ()))
    return c, has_xi


def lower_first(s):
    return s[0].lower() + s[1:]


def pairs_from_select_test_case():
    """(exact solution class, boundary class) pairs instantiated together in src/GMGPolar/select_test_case.cpp"""
    t = Src.get("src/GMGPolar/select_test_case.cpp").text
    ex = [(m.start(), m.group(1)) for m in re.finditer(r"exact_solution_\s*=\s*std::make_unique<(\w+)>", t)]
    bd = [(m.start(), m.group(1)) for m in re.finditer(r"boundary_conditions_\s*=\s*std::make_unique<(\w+)>", t)]
    if len(ex) != len(bd) or not ex:
        raise ExtractError("select_test_case.cpp: %d exact solutions vs %d boundary conditions" % (len(ex), len(bd)))
    pairs = []
    for (pe, e), (pb, b) in zip(ex, bd):
        between = t[min(pe, pb):max(pe, pb)]
        if "break" in between or "case " in between:
            raise ExtractError("select_test_case.cpp: %s and %s are not set in the same case" % (e, b))
        pairs.append((e, b))
    return pairs


def boundary_job(e, b):
    rules, hashes = Rules("C19"), {}
    c = [PRELUDE]
    ce, xe = class_unit("ExactSolution", e, lower_first(e), ["exact_solution"], rules, hashes)
    cb, xb = class_unit("BoundaryConditions", b, lower_first(b), ["u_D", "u_D_Interior"], rules, hashes)
    h = ["void harness(void) {", "  common_setup();"]
    if xe:
        h.append("  %s__initializeGeometry();" % e)
    if xb:
        h.append("  %s__initializeGeometry();" % b)
    h += ["  const real_t R0 = nondet_real(), theta = nondet_real(), sin_theta = nondet_real(), cos_theta = nondet_real(), r = Rmax;",
          "  __CPROVER_assume(0 < R0 && R0 < Rmax);",
          "  /* the property speaks about the boundary: u_D at r == Rmax, u_D_Interior at r == R0 (any 0 < R0 < Rmax) */",
          "  const real_t uo = %s__exact_solution(Rmax, theta, sin_theta, cos_theta);" % e,
          "  const real_t d = %s__u_D(Rmax, theta, sin_theta, cos_theta);" % b,
          "  const real_t ui = %s__exact_solution(R0, theta, sin_theta, cos_theta);" % e,
          "  const real_t di = %s__u_D_Interior(R0, theta, sin_theta, cos_theta);" % b,
          "  __CPROVER_assert(d == uo, \"OBL:outer_boundary_data_equal_the_exact_solution\");",
          "  __CPROVER_assert(di == ui, \"OBL:interior_boundary_data_equal_the_exact_solution\");",
          "  __CPROVER_assert(r != r, \"COVER:reached_end\");", "}"]
    j = Job("C19.boundary[%s|%s]" % (e, b), "\n".join(c + ce + cb + h), "R", unwind=20, timeout=300, bounded=None,
            functions=["%s::exact_solution" % e, "%s::u_D" % b, "%s::u_D_Interior" % b], covers={"COVER:reached_end"},
            split=r"^OBL:|^COVER:", split_timeout=200, extra=["--no-div-by-zero-check"])
    j.rules, j.hashes = rules, hashes
    return j


GYRO = ["ZoniGyroCoefficients", "ZoniShiftedGyroCoefficients", "SonnendruckerGyroCoefficients"]


def gyro_job(cls):
    rules, hashes = Rules("C19"), {}
    rel = "src/InputFunctions/DensityProfileCoefficients/%s.cpp" % lower_first(cls)
    c = [PRELUDE]
    for m in ("alpha", "beta"):
        c.append(closed_form(rel, "%s::%s" % (cls, m), rules, hashes, "%s__%s" % (cls, m), ["r"]))
    h = ["void harness(void) {", "  common_setup();", "  const real_t r = nondet_real();",
         "  const real_t a = %s__alpha(r), b = %s__beta(r);" % (cls, cls),
         "  assume_axioms();",
         "  __CPROVER_assume(a != 0);   /* alpha > 0 on the domain (property of exp / the atan profile: not decided here) */",
         "  __CPROVER_assert(a * b == 1, \"OBL:gyro_profile_has_beta_equal_one_over_alpha\");",
         "  __CPROVER_assert(r != r, \"COVER:reached_end\");", "}"]
    j = Job("C19.gyro[%s]" % cls, "\n".join(c + h), "R", unwind=LOGN_UNWIND, timeout=300, bounded=None,
            functions=["%s::alpha" % cls, "%s::beta" % cls], covers={"COVER:reached_end"}, split=r"^OBL:|^COVER:", split_timeout=200,
            extra=["--no-div-by-zero-check"])
    j.rules, j.hashes = rules, hashes
    return j


LOGN_UNWIND = 18
GEOMS = {"CircularGeometry": "circularGeometry", "ShafranovGeometry": "shafranovGeometry"}
JAC = [("dFx_dr", "Fx", "r"), ("dFy_dr", "Fy", "r"), ("dFx_dt", "Fx", "t"), ("dFy_dt", "Fy", "t")]


def jacobian_job(cls):
    rules, hashes = Rules("C19"), {}
    rel = "include/InputFunctions/DomainGeometry/%s.inl" % GEOMS[cls]
    c = [PRELUDE]
    for m in ("Fx", "Fy", "dFx_dr", "dFy_dr", "dFx_dt", "dFy_dt"):
        c.append(closed_form(rel, "%s::%s" % (cls, m), rules, hashes, "%s__%s" % (cls, m), ARGS4))
    h = ["void harness(void) {", "  common_setup();",
         "  const real_t r = nondet_real(), t = nondet_real(), t2 = nondet_real(), s = nondet_real(), c = nondet_real(), h = nondet_real();",
         "  __CPROVER_assume(h != 0);"]
    for F in ("Fx", "Fy"):
        f = "%s__%s" % (cls, F)
        h.append("  __CPROVER_assert(%s(r, t, s, c) == %s(r, t2, s, c), \"OBL:%s_reads_theta_only_through_sin_and_cos\");" % (f, f, F))
        for (v, args) in (("r", "(r + %s, t, s, c)"), ("sin", "(r, t, s + %s, c)"), ("cos", "(r, t, s, c + %s)")):
            terms = [f + args % k for k in ("3 * h", "2 * h", "h", "0 * h")]
            h.append("  __CPROVER_assert(%s - 3 * %s + 3 * %s - %s == 0, \"OBL:%s_has_degree_at_most_2_in_%s\");" % (terms[0], terms[1], terms[2], terms[3], F, v))
    for (J, F, wrt) in JAC:
        f, jn = "%s__%s" % (cls, F), "%s__%s" % (cls, J)
        if wrt == "r":
            h.append("  __CPROVER_assert(%s(r, t, s, c) * (2 * h) == %s(r + h, t, s, c) - %s(r - h, t, s, c), \"OBL:%s_is_the_r_derivative_of_%s\");" % (jn, f, f, J, F))
        else:
            h.append("  __CPROVER_assert(%s(r, t, s, c) * (2 * h) == c * (%s(r, t, s + h, c) - %s(r, t, s - h, c)) - s * (%s(r, t, s, c + h) - %s(r, t, s, c - h)), "
                     "\"OBL:%s_is_the_theta_derivative_of_%s\");" % (jn, f, f, f, f, J, F))
    h += ["  __CPROVER_assert(r != r, \"COVER:reached_end\");", "}"]
    j = Job("C19.jacobian[%s]" % cls, "\n".join(c + h), "R", unwind=LOGN_UNWIND, timeout=300, bounded=None,
            functions=["%s::%s" % (cls, m) for m in ("Fx", "Fy", "dFx_dr", "dFy_dr", "dFx_dt", "dFy_dt")], covers={"COVER:reached_end"},
            split=r"^OBL:|^COVER:", split_timeout=200, extra=["--no-div-by-zero-check"])
    j.rules, j.hashes = rules, hashes
    return j


# ---- (d) every input-function object carries the parameters it is constructed with -------------------------------------------
INPUT_DIRS = ["SourceTerms", "ExactSolution", "BoundaryConditions", "DensityProfileCoefficients", "DomainGeometry"]


def ctor_job():
    """Contract of every constructor of the shipped input-function classes: after construction each member that is named like a
    constructor parameter holds that parameter (members start from an ARBITRARY in-class default; R11: the member-initialiser list
    becomes assignments).  A source term / exact solution / boundary class that drops a geometry or profile parameter evaluates its
    closed form for other parameters than the rest of the triple: a necessary condition of every clause of C19."""
    import os, units
    from vlib import REPO
    rules, hashes = Rules("C19"), {}
    c = [PRELUDE]
    h = ["void harness(void) {", "  common_setup();"]
    ncls = 0
    for d in INPUT_DIRS:
        base = os.path.join(REPO, "src/InputFunctions", d)
        for fn in sorted(os.listdir(base)):
            if not fn.endswith(".cpp"):
                continue
            rel = "src/InputFunctions/%s/%s" % (d, fn)
            src = Src.get(rel)
            cls = fn[:-4][0].upper() + fn[:-4][1:]
            hdr = Src.get("include/InputFunctions/%s/%s.h" % (d, fn[:-4])).text
            if not re.search(r"\bclass\s+%s\b" % cls, hdr):
                raise ExtractError("class %s not declared in its header" % cls)
            k = 0
            while True:
                try:
                    f = src.function("%s::%s" % (cls, cls), occurrence=k)
                except ExtractError:
                    break
                k += 1
                params = [pn for (pt, pn) in f["params"]]
                if not params:
                    continue
                hashes["%s::%s#%d" % (cls, cls, k - 1)] = sha(f["init"] + "|" + f["params_text"])
                inits = units.parse_init_list(f["init"]) if f["init"].strip() else []
                stored = [pn for pn in params if re.search(r"\bdouble\s+%s\b\s*(=[^;]*)?;" % re.escape(pn), hdr)]
                members = sorted(set([m for m, _ in inits] + stored))
                tag = "%s_c%d" % (cls, k - 1)
                c.append("static real_t %s;" % ", ".join("%s__%s" % (tag, m) for m in members) if members else "")
                body = ["  %s__%s = nondet_real();   /* in-class default member initialiser: arbitrary */" % (tag, m) for m in members]
                for m, e in inits:
                    e2 = common_body_rewrites(e, rules, "R")
                    if not re.fullmatch(r"[\w\s.+\-*/()]+", e2):
                        raise ExtractError("%s: member initialiser `%s` not understood" % (cls, e))
                    body.append("  %s__%s = %s;" % (tag, m, e2))
                c.append("static void %s__ctor(%s)\n{\n%s\n}\n" % (tag, ", ".join("const real_t %s" % pn for pn in params), "\n".join(body)))
                h.append("  { %s %s__ctor(%s);" % (" ".join("const real_t a_%s = nondet_real();" % pn for pn in params), tag, ", ".join("a_" + pn for pn in params)))
                for pn in stored:
                    h.append("    __CPROVER_assert(%s__%s == a_%s, \"OBL:constructor_stores_its_parameter[%s::%s]\");" % (tag, pn, pn, cls, pn))
                h.append("  }")
                ncls += 1
    if ncls < 90:
        raise ExtractError("only %d input-function constructors found" % ncls)
    h += ["  __CPROVER_assert(Rmax != Rmax, \"COVER:reached_end\");", "}"]
    j = Job("C19.constructors", "\n".join(c + h), "R", unwind=4, timeout=600, bounded=None, functions=["%d constructors of src/InputFunctions/**" % ncls],
            covers={"COVER:reached_end"}, extra=["--no-div-by-zero-check"])
    j.rules, j.hashes = rules, hashes
    return j


# ---- (e) the selection tables pair classes of ONE problem, ONE profile and ONE geometry -------------------------------------
PROBLEMS = {"CartesianR2": "CARTESIAN_R2", "CartesianR6": "CARTESIAN_R6", "PolarR6": "POLAR_R6", "Refined": "REFINED_RADIUS"}
PROFILES = {"Poisson": ("POISSON", None), "Sonnendrucker": ("SONNENDRUCKER", "ZERO"), "SonnendruckerGyro": ("SONNENDRUCKER", "ALPHA_INVERSE"),
            "Zoni": ("ZONI", "ZERO"), "ZoniGyro": ("ZONI", "ALPHA_INVERSE"), "ZoniShifted": ("ZONI_SHIFTED", "ZERO"),
            "ZoniShiftedGyro": ("ZONI_SHIFTED", "ALPHA_INVERSE")}
GEOMETRIES = {"CircularGeometry": "CIRCULAR", "ShafranovGeometry": "SHAFRANOV", "CzarnyGeometry": "CZARNY", "CulhamGeometry": "CULHAM"}
GEOM_ARGS = {"CIRCULAR": "Rmax_", "CULHAM": "Rmax_", "SHAFRANOV": "Rmax_, kappa_eps_, delta_e_", "CZARNY": "Rmax_, kappa_eps_, delta_e_"}


def decode_class(cls):
    """class NAME -> (role, problem, alpha, beta, geometry) by the repository's naming scheme <Problem>[_Boundary|_<Profile>]_<Geometry>"""
    parts = cls.split("_")
    if cls in GEOMETRIES:
        return ("geometry", None, None, None, GEOMETRIES[cls])
    if cls.endswith("Coefficients") and cls[:-len("Coefficients")] in PROFILES:
        a, b = PROFILES[cls[:-len("Coefficients")]]
        return ("profile", None, a, b, None)
    if parts[-1] not in GEOMETRIES or parts[0] not in PROBLEMS:
        raise ExtractError("class name %s does not follow the naming scheme" % cls)
    if len(parts) == 2:
        return ("exact", PROBLEMS[parts[0]], None, None, GEOMETRIES[parts[1]])
    if len(parts) == 3 and parts[1] == "Boundary":
        return ("boundary", PROBLEMS[parts[0]], None, None, GEOMETRIES[parts[2]])
    if len(parts) == 3 and parts[1] in PROFILES:
        a, b = PROFILES[parts[1]]
        return ("source", PROBLEMS[parts[0]], a, b, GEOMETRIES[parts[2]])
    raise ExtractError("class name %s does not follow the naming scheme" % cls)


def selection_job():
    """GMGPolar::selectTestCase (verbatim switch structure): for EVERY value of the four option enums the function either throws or
    selects a geometry, a profile, an exact solution, boundary data and a source term that belong to the SAME problem, profile and
    geometry as the options say, each constructed with the solver's own parameters.  `X_ = std::make_unique<Class>(args)` becomes a
    record of the class (decoded from its NAME by the repository's naming scheme) and of the argument list."""
    rules, hashes = Rules("C19"), {}
    f = Src.get("src/GMGPolar/select_test_case.cpp").function("GMGPolar::selectTestCase")
    hashes["GMGPolar::selectTestCase"] = sha(f["body"])
    b = f["body"]
    enums = {"GeometryType": ["CIRCULAR", "SHAFRANOV", "CZARNY", "CULHAM"], "ProblemType": ["CARTESIAN_R2", "CARTESIAN_R6", "POLAR_R6", "REFINED_RADIUS"],
             "AlphaCoeff": ["POISSON", "SONNENDRUCKER", "ZONI", "ZONI_SHIFTED"], "BetaCoeff": ["ZERO", "ALPHA_INVERSE"]}
    gd = Src.get("include/common/global_definitions.h").text
    for en, vals in enums.items():
        m = re.search(r"enum\s+class\s+%s\s*\{([^}]*)\}" % en, gd)
        got = [x.split("=")[0].strip() for x in m.group(1).split(",") if x.strip()] if m else None
        if got != vals:
            raise ExtractError("enum %s changed: %s" % (en, got))
    role_member = {"geometry": "domain_geometry_", "profile": "density_profile_coefficients_", "exact": "exact_solution_", "boundary": "boundary_conditions_", "source": "source_term_"}
    n = [0]

    def rec(m):
        member, cls, args = m.group(1), m.group(2), " ".join(m.group(3).split())
        role, pr, al, be, ge = decode_class(cls)
        if role_member[role] != member:
            raise ExtractError("%s assigned to %s" % (cls, member))
        n[0] += 1
        want_args = GEOM_ARGS[ge] if ge else "Rmax_, alpha_jump_"
        return ("{ sel_%s.set = 1; sel_%s.problem = %s; sel_%s.alpha = %s; sel_%s.beta = %s; sel_%s.geometry = %s; sel_%s.args_ok = %d; }" % (
            role, role, ("ProblemType_" + pr) if pr else "-1", role, ("AlphaCoeff_" + al) if al else "-1", role, ("BetaCoeff_" + be) if be else "-1",
            role, ("GeometryType_" + ge) if ge else "-1", role, 1 if args == want_args else 0))
    b = re.sub(r"\b(\w+_)\s*=\s*std::make_unique<(\w+)>\(([^;]*)\);", rec, b)
    rules.log.append(("C19.make_unique_record", n[0]))
    if n[0] < 100:
        raise ExtractError("only %d make_unique assignments found in selectTestCase" % n[0])
    b = rules.sub("R8.throw", r"throw\s+std::(\w+)\(([^;]*)\);", "{ g_thrown = 1; return; }", b, expect="+")
    b = common_body_rewrites(b, rules, "I")
    if re.search(r"std::|make_unique", b):
        raise ExtractError("unhandled construct in selectTestCase")
    c = ["int nondet_int(void);",
         "enum { GeometryType_CIRCULAR, GeometryType_SHAFRANOV, GeometryType_CZARNY, GeometryType_CULHAM };",
         "enum { ProblemType_CARTESIAN_R2, ProblemType_CARTESIAN_R6, ProblemType_POLAR_R6, ProblemType_REFINED_RADIUS };",
         "enum { AlphaCoeff_POISSON, AlphaCoeff_SONNENDRUCKER, AlphaCoeff_ZONI, AlphaCoeff_ZONI_SHIFTED };",
         "enum { BetaCoeff_ZERO, BetaCoeff_ALPHA_INVERSE };",
         "struct sel { _Bool set; int problem, alpha, beta, geometry; _Bool args_ok; };",
         "static struct sel sel_geometry, sel_profile, sel_exact, sel_boundary, sel_source;",
         "static int geometry_, problem_, alpha_, beta_; static _Bool g_thrown;",
         "static void selectTestCase(void)\n{%s}\n" % b,
         "void harness(void) {",
         "  geometry_ = nondet_int(); problem_ = nondet_int(); alpha_ = nondet_int(); beta_ = nondet_int();   /* ANY int: also values outside the enums */",
         "  g_thrown = 0; selectTestCase();",
         "  const _Bool valid = geometry_ >= 0 && geometry_ <= 3 && problem_ >= 0 && problem_ <= 3 && alpha_ >= 0 && alpha_ <= 3 && beta_ >= 0 && beta_ <= 1;",
         "  __CPROVER_assert(!valid || !g_thrown || (geometry_ == GeometryType_CULHAM && problem_ != ProblemType_POLAR_R6 && problem_ != ProblemType_REFINED_RADIUS) || 1, \"OBL:placeholder\");",
         "  if (!g_thrown) {",
         "    __CPROVER_assert(sel_geometry.set && sel_profile.set && sel_exact.set && sel_boundary.set && sel_source.set, \"OBL:all_five_input_functions_are_selected\");",
         "    __CPROVER_assert(sel_geometry.geometry == geometry_ && sel_exact.geometry == geometry_ && sel_boundary.geometry == geometry_ && sel_source.geometry == geometry_, \"OBL:all_selected_classes_belong_to_the_selected_geometry\");",
         "    __CPROVER_assert(sel_exact.problem == problem_ && sel_boundary.problem == problem_ && sel_source.problem == problem_, \"OBL:exact_solution_boundary_data_and_source_term_belong_to_the_selected_problem\");",
         "    __CPROVER_assert(sel_profile.alpha == alpha_ && sel_source.alpha == alpha_, \"OBL:profile_and_source_term_belong_to_the_selected_alpha\");",
         "    __CPROVER_assert(sel_profile.beta == sel_source.beta && (sel_profile.beta == -1 ? alpha_ == AlphaCoeff_POISSON : sel_profile.beta == beta_), \"OBL:profile_and_source_term_belong_to_the_selected_beta\");",
         "    __CPROVER_assert(sel_geometry.args_ok && sel_profile.args_ok && sel_exact.args_ok && sel_boundary.args_ok && sel_source.args_ok, \"OBL:every_class_is_constructed_with_the_solver_parameters_of_its_geometry\");",
         "    /* beta is not read for the Poisson profile, which has no beta variant: any beta value is accepted there */",
         "    __CPROVER_assert(valid || (alpha_ == AlphaCoeff_POISSON && geometry_ >= 0 && geometry_ <= 3 && problem_ >= 0 && problem_ <= 3), \"OBL:option_values_outside_the_enums_are_rejected\");",
         "  }",
         "  __CPROVER_assert(0, \"COVER:reached_end\");", "}"]
    c = [x for x in c if "OBL:placeholder" not in x]
    j = Job("C19.selection_tables", "\n".join(c), "P", timeout=600, bounded=None, functions=["GMGPolar::selectTestCase"], covers={"COVER:reached_end"})
    j.rules, j.hashes = rules, hashes
    return j


def czarny_job():
    """Czarny geometry: the mapping is algebraic, not polynomial.  Lemmas (obligations L1, L2, proved from the code's Fx, Fy with the
    axiom sqrt(x)^2 == x): the mapping satisfies the POLYNOMIAL relations
        P(Fx; r, c)      := (1 - eps Fx)^2 - (1 + eps^2 + 2 eps (r / Rmax) c)        == 0
        Q(Fy, Fx; r, s)  := Fy (1 + eps Fx) - e xi (r / Rmax) s                      == 0.
    Proof rule (implicit differentiation / chain rule, textbook): J is the partial derivative of F iff it satisfies the linear equation
    obtained by differentiating the relation, as long as the coefficient of J does not vanish:
        P_y J_x,r + P_r == 0,   P_y J_x,t + (P_s c - P_c s) == 0,   Q_y J_y,r + Q_x J_x,r + Q_r == 0,   Q_y J_y,t + Q_x J_x,t + (Q_s c - Q_c s) == 0,
    where the partial derivatives of the polynomials P, Q are their exact central differences (degree <= 2 in every variable).
    DECIDED: L1, L2 and the two equations for dFx_dr, dFx_dt.  NOT decided: the two equations for dFy_dr, dFy_dt (solver limit)."""
    rules, hashes = Rules("C19"), {}
    cls = "CzarnyGeometry"
    c = [PRELUDE, "static real_t %s_factor_xi;" % cls]
    c.append(closed_form("src/InputFunctions/DomainGeometry/czarnyGeometry.cpp", "%s::initializeGeometry" % cls, rules, hashes, "%s__initializeGeometry" % cls, [], prefix_members=("factor_xi",)))
    rel = "include/InputFunctions/DomainGeometry/czarnyGeometry.inl"
    for m in ("Fx", "Fy", "dFx_dr", "dFy_dr", "dFx_dt", "dFy_dt"):
        c.append(closed_form(rel, "%s::%s" % (cls, m), rules, hashes, "%s__%s" % (cls, m), ARGS4, prefix_members=("factor_xi",)))
    c.append("#define EPS inverse_aspect_ratio_epsilon")
    c.append("static real_t P(real_t y, real_t r, real_t s, real_t c) { return (1 - EPS * y) * (1 - EPS * y) - (1 + EPS * EPS + 2 * EPS * (r / Rmax) * c); }")
    c.append("static real_t Q(real_t y, real_t x, real_t r, real_t s, real_t c) { return y * (1 + EPS * x) - ellipticity_e * CzarnyGeometry_factor_xi * (r / Rmax) * s; }")
    h = ["void harness(void) {", "  common_setup(); CzarnyGeometry__initializeGeometry();",
         "  const real_t r = nondet_real(), t = nondet_real(), s = nondet_real(), c = nondet_real(), h = nondet_real();",
         "  __CPROVER_assume(h != 0 && EPS != 0);",
         "  const real_t X = CzarnyGeometry__Fx(r, t, s, c), Y = CzarnyGeometry__Fy(r, t, s, c);",
         "  const real_t Xr = CzarnyGeometry__dFx_dr(r, t, s, c), Xt = CzarnyGeometry__dFx_dt(r, t, s, c), Yr = CzarnyGeometry__dFy_dr(r, t, s, c), Yt = CzarnyGeometry__dFy_dt(r, t, s, c);",
         "  assume_sqrt_axioms();",
         "  /* non-degenerate point of the mapping: w = sqrt(..) != 0 and 2 - w != 0 (the code divides by both) */",
         "  __CPROVER_assume(1 - EPS * X != 0 && 1 + EPS * X != 0);",
         "  __CPROVER_assert(P(X, r, s, c) == 0, \"OBL:lemma_L1_Fx_satisfies_its_polynomial_relation\");",
         "  __CPROVER_assert(Q(Y, X, r, s, c) == 0, \"OBL:lemma_L2_Fy_satisfies_its_polynomial_relation\");"]
    # the four defining equations, cleared of denominators (implicit differentiation of P and Q, see docstring):
    #   P_y = -2 eps w, P_r = -2 eps c / Rmax, P_c = -2 eps rho, P_s = 0;  Q_y = d, Q_x = eps Y, Q_r = -EX s / Rmax, Q_s = -EX rho, Q_c = 0
    h += ["  const real_t Py = P(X + h, r, s, c) - P(X - h, r, s, c), Pr = P(X, r + h, s, c) - P(X, r - h, s, c), Ps = P(X, r, s + h, c) - P(X, r, s - h, c), Pc = P(X, r, s, c + h) - P(X, r, s, c - h);",
          "  const real_t Qy = Q(Y + h, X, r, s, c) - Q(Y - h, X, r, s, c), Qx = Q(Y, X + h, r, s, c) - Q(Y, X - h, r, s, c), Qr = Q(Y, X, r + h, s, c) - Q(Y, X, r - h, s, c),",
          "               Qs = Q(Y, X, r, s + h, c) - Q(Y, X, r, s - h, c), Qc = Q(Y, X, r, s, c + h) - Q(Y, X, r, s, c - h);"]
    h += ["  __CPROVER_assert(Py * Xr + Pr == 0, \"OBL:dFx_dr_is_the_r_derivative_of_Fx(implicit relation)\");",
          "  __CPROVER_assert(Py * Xt + (Ps * c - Pc * s) == 0, \"OBL:dFx_dt_is_the_theta_derivative_of_Fx(implicit relation)\");"]
    # NOT decided: the two Fy equations  Qy Yr + Qx Xr + Qr == 0  and  Qy Yt + Qx Xt + (Qs c - Qc s) == 0 -- z3 (and cvc5) cannot clear the
    # nested denominators of the code's dFy_dr / dFy_dt within 400 s, with or without intermediate cuts (tried 2026-10-05)
    h += [
          "  __CPROVER_assert(Py != 0 && Qy != 0, \"OBL:the_coefficient_of_the_Jacobian_entry_does_not_vanish(so the linear equation determines it)\");",
          "  __CPROVER_assert(r != r, \"COVER:reached_end\");", "}"]
    j = Job("C19.jacobian[CzarnyGeometry]", "\n".join(c + h), "R", unwind=LOGN_UNWIND, timeout=600, bounded=None,
            functions=["CzarnyGeometry::%s" % m for m in ("Fx", "Fy", "dFx_dr", "dFy_dr", "dFx_dt", "dFy_dt", "initializeGeometry")], covers={"COVER:reached_end"},
            split=r"^OBL:|^COVER:", split_chunk=1, split_timeout=400, extra=["--no-div-by-zero-check"])
    j.rules, j.hashes = rules, hashes
    return j


def build_jobs(tier, seed):
    jobs = [ctor_job(), selection_job(), czarny_job()]
    jobs += [boundary_job(e, b) for (e, b) in pairs_from_select_test_case()]
    jobs += [gyro_job(c) for c in GYRO]
    jobs += [jacobian_job(c) for c in GEOMS]
    return jobs


EXPLANATION = (
    "The algebraically decidable clauses of C19, for ALL real arguments (no grid, no bound): the verbatim closed forms are extracted; "
    "sin / cos / tanh / atan / sqrt / exp / pow are uninterpreted functions (same symbol on both sides), M_PI a symbolic constant, literals "
    "exact rationals. (a) for each (exact solution, boundary condition) pair instantiated together in select_test_case.cpp: u_D and "
    "u_D at r == Rmax and u_D_Interior at r == R0 (any 0 < R0 < Rmax) equal exact_solution for all (theta, sin, cos); (b) each gyro profile: alpha(r) * beta(r) == 1, using only the "
    "axioms exp(x) * exp(-x) == 1 and pow(x, -1) == 1 / x instantiated at the calls made; (c) Circular and Shafranov geometry: the four "
    "Jacobian functions are the partial derivatives of (Fx, Fy), by the exactness of central differences for polynomials of degree <= 2 "
    "(degree and theta-independence are obligations too) and the chain rule through (sin theta, cos theta); (d) every constructor of the "
    "input-function classes stores each parameter in the member of the same name, starting from arbitrary in-class defaults; (e) the "
    "verbatim switch structure of GMGPolar::selectTestCase, for EVERY int value of the four options: it throws or selects geometry, profile, "
    "exact solution, boundary data and source term of one and the same problem / profile / geometry (classes decoded from their names by "
    "the repository's naming scheme), each constructed with the solver's parameters. NOT decided: the source "
    "terms (-div(alpha grad u) + beta u needs symbolic differentiation of 2.7 MB of generated forms), dFy_dr / dFy_dt of the Czarny geometry "
    "(dFx_dr / dFx_dt ARE decided: the mapping satisfies the polynomial relation (1 - eps Fx)^2 == 1 + eps^2 + 2 eps (r/Rmax) cos, proved from the "
    "code with sqrt(x)^2 == x, and the Jacobian entries satisfy its implicit derivative), the Culham geometry (series), positivity of alpha.")


def ctor_args(cls):
    if cls.endswith("ShafranovGeometry"):
        return "(Rmax, 0.3, 0.2)"
    if cls.endswith("CzarnyGeometry"):
        return "(Rmax, 0.3, 1.4)"
    return "(Rmax)"


def inputs_replay_cb(job, key, label, rec):
    """CBMC's SMT back end prints no real values: the replay evaluates the REAL classes named by the job on a lattice of points
    (r in [1e-5, Rmax], 64 angles, standard geometry parameters) and compares natively (generated driver, see vlib.native_generated)"""
    import vlib
    head = "#include <cmath>\n#include <cstdio>\n"
    loop = ("int main() { const double Rmax = 1.3; int fails = 0; %s\n"
            "  for (int i = 0; i <= 40; i++) for (int j = 0; j < 64; j++) { const double r = 1e-5 + (Rmax - 1e-5) * i / 40.0, t = 2 * M_PI * j / 64.0, s = std::sin(t), c = std::cos(t);\n"
            "    %s }\n  std::printf(\"%%d point(s) failed\\n\", fails); return fails ? 1 : 0; }\n")
    if job.name == "C19.selection_tables":
        v = vlib.last_values(rec)
        try:
            g, pr, al, be = int(v["geometry_"]), int(v["problem_"]), int(v["alpha_"]), int(v["beta_"])
        except (KeyError, ValueError):
            return None
        src = ("#include <bits/stdc++.h>\n#include <omp.h>\n#include <cxxabi.h>\n#define private public\n#include \"GMGPolar/gmgpolar.h\"\n#undef private\n"
               "static std::string nm(const std::type_info& t) { int st = 0; char* d = abi::__cxa_demangle(t.name(), 0, 0, &st); std::string s = d ? d : t.name(); free(d); return s; }\n"
               "int main() { GMGPolar s; s.geometry_ = (GeometryType)%d; s.problem_ = (ProblemType)%d; s.alpha_ = (AlphaCoeff)%d; s.beta_ = (BetaCoeff)%d; s.Rmax_ = 1.3; s.kappa_eps_ = 0.3; s.delta_e_ = 0.2; s.alpha_jump_ = 0.5;\n"
               "  try { s.selectTestCase(); } catch (const std::exception& e) { std::printf(\"rejected: %%s\", e.what()); return 0; }\n"
               "  const std::string G = nm(typeid(*s.domain_geometry_)), P = nm(typeid(*s.density_profile_coefficients_)), E = nm(typeid(*s.exact_solution_)), B = nm(typeid(*s.boundary_conditions_)), S = nm(typeid(*s.source_term_));\n"
               "  std::printf(\"options (geometry %d, problem %d, alpha %d, beta %d) select:\\n  %%s | %%s | %%s | %%s | %%s\\n\", G.c_str(), P.c_str(), E.c_str(), B.c_str(), S.c_str());\n"
               "  /* names follow <Problem>[_Boundary|_<Profile>]_<Geometry> and <Profile>Coefficients */\n"
               "  const std::string prob = E.substr(0, E.find('_')), prof = P.substr(0, P.size() - std::string(\"Coefficients\").size());\n"
               "  const bool ok = E == prob + \"_\" + G && B == prob + \"_Boundary_\" + G && S == prob + \"_\" + prof + \"_\" + G;\n"
               "  if (!ok) { std::printf(\"[FAIL] the five classes do not belong to one problem / profile / geometry\\n\"); return 1; } return 0; }\n") % (g, pr, al, be, g, pr, al, be)
        return vlib.native_generated("replay_c19_selection", src)
    m = re.search(r"constructor_stores_its_parameter\[(\w+)::(\w+)\]", label)
    if m and job.name == "C19.constructors":
        import os
        cls, par = m.group(1), m.group(2)
        for d in INPUT_DIRS:
            rel = "src/InputFunctions/%s/%s.cpp" % (d, lower_first(cls))
            if os.path.exists(os.path.join(vlib.REPO, rel)):
                break
        else:
            return None
        k, best = 0, None
        while True:
            try:
                f = Src.get(rel).function("%s::%s" % (cls, cls), occurrence=k)
            except ExtractError:
                break
            k += 1
            names = [pn for (_, pn) in f["params"]]
            if par in names:
                best = names
        if best is None:
            return None
        vals = ["%d.0 / 64" % (70 + 9 * i) for i in range(len(best))]     # distinct, none equal to a shipped default
        src = ("#include <bits/stdc++.h>\n#include <omp.h>\n#define private public\n#define protected public\n#include \"InputFunctions/%s/%s.h\"\n"
               "int main() { %s o(%s); const double want = %s; std::printf(\"%s::%s holds %%.17g after construction with %%.17g\\n\", (double)o.%s, want);\n"
               "  if (o.%s != want) { std::printf(\"[FAIL] the constructor does not store its parameter\\n\"); return 1; } return 0; }\n") % (
                   d, lower_first(cls), cls, ", ".join(vals), vals[best.index(par)], cls, par, par, par)
        return vlib.native_generated("replay_c19_ctor", src)
    m = re.match(r"C19\.boundary\[(\w+)\|(\w+)\]", job.name)
    if m:
        e, b = m.group(1), m.group(2)
        src = head + "#include \"InputFunctions/ExactSolution/%s.h\"\n#include \"InputFunctions/BoundaryConditions/%s.h\"\n" % (lower_first(e), lower_first(b))
        src += loop % ("%s E%s; %s B%s;" % (e, ctor_args(e), b, ctor_args(b)),
                       "const double uo = E.exact_solution(Rmax, t, s, c), d = B.u_D(Rmax, t, s, c), ui = E.exact_solution(r, t, s, c), di = B.u_D_Interior(r, t, s, c);  /* outer boundary; r as interior boundary R0 */\n"
                       "    if (std::fabs(d - uo) > 1e-12 * (1 + std::fabs(uo)) || std::fabs(di - ui) > 1e-12 * (1 + std::fabs(ui))) { if (!fails) std::printf(\"[FAIL] theta=%g: at Rmax exact %.17g u_D %.17g; at R0=%g exact %.17g u_D_Interior %.17g\\n\", t, uo, d, r, ui, di); fails++; }")
        return vlib.native_generated("replay_c19_boundary", src)
    m = re.match(r"C19\.gyro\[(\w+)\]", job.name)
    if m:
        g = m.group(1)
        src = head + "#include \"InputFunctions/DensityProfileCoefficients/%s.h\"\n" % lower_first(g)
        src += loop % ("%s P(Rmax, 0.5);" % g,
                       "const double a = P.alpha(r), be = P.beta(r); if (std::fabs(a * be - 1.0) > 1e-12) { if (!fails) std::printf(\"[FAIL] r=%g: alpha %.17g beta %.17g alpha*beta-1 = %.3e\\n\", r, a, be, a * be - 1.0); fails++; }")
        return vlib.native_generated("replay_c19_gyro", src)
    m = re.match(r"C19\.jacobian\[(\w+)\]", job.name)
    if m:
        g = m.group(1)
        src = head + "#include \"InputFunctions/DomainGeometry/%s.h\"\n" % lower_first(g)
        chk = ("const double h = 1e-6;\n"
               "    const double nxr = (G.Fx(r + h, t, s, c) - G.Fx(r - h, t, s, c)) / (2 * h), nyr = (G.Fy(r + h, t, s, c) - G.Fy(r - h, t, s, c)) / (2 * h);\n"
               "    const double nxt = (G.Fx(r, t + h, std::sin(t + h), std::cos(t + h)) - G.Fx(r, t - h, std::sin(t - h), std::cos(t - h))) / (2 * h);\n"
               "    const double nyt = (G.Fy(r, t + h, std::sin(t + h), std::cos(t + h)) - G.Fy(r, t - h, std::sin(t - h), std::cos(t - h))) / (2 * h);\n"
               "    const double e = std::fabs(G.dFx_dr(r, t, s, c) - nxr) + std::fabs(G.dFy_dr(r, t, s, c) - nyr) + std::fabs(G.dFx_dt(r, t, s, c) - nxt) + std::fabs(G.dFy_dt(r, t, s, c) - nyt);\n"
               "    if (e > 1e-6) { if (!fails) std::printf(\"[FAIL] r=%g theta=%g: Jacobian differs from central differences of the mapping by %.3e\\n\", r, t, e); fails++; }")
        src += loop % ("%s G%s;" % (g, ctor_args(g)), chk)
        return vlib.native_generated("replay_c19_jacobian", src)
    return None


def run(tier, seed, work):
    import vlib
    rep = vlib.Report("C19", tier, seed)
    jobs = build_jobs(tier, seed)
    vlib.run_jobs(jobs, work)
    rep.absorb(jobs, replay_cb=inputs_replay_cb)
    # sin / cos / exp ... are uninterpreted here: a failed obligation that the real functions do not reproduce on the lattice may be an
    # identity of the transcendental functions the abstraction cannot see -> undecided (exit 2), not a violation
    keep = []
    for (oname, (fn, rec)) in rep.violations:
        if (rec.get("native") or {}).get("status") == "not-reproduced":
            rep.inconclusive.append("%s: obligation failed under the uninterpreted-function abstraction but the real functions agree on the replay lattice (%s)" % (oname, fn))
        else:
            keep.append((oname, (fn, rec)))
    rep.violations = keep
    rep.extraction = {"rules_fired": jobs[0].rules.summary(), "body_sha256_16": {k: v for j in jobs for k, v in j.hashes.items()},
                      "dropped": ["constructors (members are symbolic reals shared by the two classes of a pair; factor_xi computed by each class's initializeGeometry)"]}
    rep.trusted = ["double treated as mathematical real", "CBMC 6.11 + z3 5.1", "extractor rules",
                   "axioms (instantiated at the calls made): exp(x) * exp(-x) == 1; pow(x, -1) == 1 / x; sqrt(x)^2 == x and sqrt(x) >= 0 for x >= 0; "
                   "pow(x, n) with an integral literal n >= 0 is exact (repeated multiplication); sin, cos, tanh, atan otherwise uninterpreted",
                   "proof rules: central differences are exact for polynomials of degree <= 2; chain rule through (sin theta, cos theta); implicit "
                   "differentiation of a polynomial relation satisfied by the mapping (Czarny dFx_*)",
                   "class names follow <Problem>[_Boundary|_<Profile>]_<Geometry> / <Profile>Coefficients (selection tables; checked against the enums)"]
    rep.assumptions = ["Rmax > 0", "alpha(r) != 0 in the gyro obligation", "the sin_theta / cos_theta arguments are arbitrary reals (stronger than needed)",
                       "NOT decided: source terms, Czarny dFy_dr / dFy_dt, Culham Jacobians, alpha > 0"]
    return rep.finish("other", EXPLANATION, "cbmc unit.c --function harness --z3 [--property P --slice-formula]")


def replay(path):
    return 0
