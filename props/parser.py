"""C20 (part) -- option validation: GMGPolar::parseGrid / parseGeometry / parseMultigrid / parseGeneral and the prologue of setup().

The verbatim bodies of the four parse functions (src/GMGPolar/parser.cpp) are run with EVERY value of every command-line
option (`parser_.get<T>("name")` becomes the symbolic input opt_name; std::string options are dropped).  Contract, from the
property: a parse function either throws or leaves every enum-typed member holding one of its enumerators (so that every
later `switch` is total) and every other member holding the option value; it throws exactly when an enum option is not an
enumerator; selectTestCase() is called once, after all members are set.  Prologue of setup(): the take strategy without
both caches is rejected before anything is built.  Plain CBMC (SAT), loop-free: complete for all option values.
NOT decided: the cmdline.h library itself (registration, defaults, oneof ranges, parse errors)."""
import re
from vlib import Src, Rules, Job, ExtractError, common_body_rewrites, sha

REL = "src/GMGPolar/parser.cpp"
ENUM_MEMBERS = {"alpha_": "AlphaCoeff", "problem_": "ProblemType", "geometry_": "GeometryType", "beta_": "BetaCoeff", "FMG_cycle_": "MultigridCycleType",
                "extrapolation_": "ExtrapolationType", "multigrid_cycle_": "MultigridCycleType", "residual_norm_type_": "ResidualNormType",
                "stencil_distribution_method_": "StencilDistributionMethod"}


def enums_from_header():
    t = Src.get("include/common/global_definitions.h").text
    out = {}
    for m in re.finditer(r"enum\s+class\s+(\w+)\s*\{([^}]*)\}", t):
        vals = []
        for item in m.group(2).split(","):
            item = item.strip()
            if not item:
                continue
            mm = re.fullmatch(r"(\w+)\s*=\s*(-?\d+)", item)
            if not mm:
                raise ExtractError("enumerator `%s` of %s has no explicit integer value" % (item, m.group(1)))
            vals.append((mm.group(1), int(mm.group(2))))
        out[m.group(1)] = vals
    return out


def parse_unit(rules, hashes):
    src = Src.get(REL)
    enums = enums_from_header()
    c = ["typedef double real_t;", "int nondet_int(void); double nondet_double(void);", "static _Bool g_thrown; static int g_select_calls, g_members_set_at_select;"]
    for en, vals in enums.items():
        c.append("typedef int %s; enum { %s };" % (en, ", ".join("%s_%s = %d" % (en, v, k) for v, k in vals)))
    opts, members = {}, {}
    fns = []
    for fn in ("parseGrid", "parseGeometry", "parseMultigrid", "parseGeneral"):
        f = src.function("GMGPolar::" + fn)
        hashes["GMGPolar::" + fn] = sha(f["body"])
        b = f["body"]
        b = rules.sub("P.string_options", r"^\s*\w+\s*=\s*parser_\.get<std::string>\(\"\w+\"\);\s*$", "", b, flags=re.M)

        def opt(m):
            ty, name = m.group(1), m.group(2)
            opts[name] = ty
            return "opt_" + name
        b = re.sub(r"parser_\.get<(int|double)>\(\"(\w+)\"\)", opt, b)
        if "parser_" in b:
            raise ExtractError("%s: unhandled use of parser_" % fn)
        for m in re.finditer(r"^\s*(\w+_)\s*=", b, re.M):
            members[m.group(1)] = None
        b = rules.sub("P.optional_reset", r"\b(\w+_)\s*=\s*std::nullopt;", r"\1_has = 0;", b)
        b = rules.sub("P.optional_set", r"\b(absolute_tolerance_|relative_tolerance_)\s*=\s*(\w+);", r"{ \1_has = 1; \1 = \2; }", b)
        b = rules.sub("P.static_cast_enum", r"\bstatic_cast<(%s)>\(" % "|".join(enums), r"(\1)(", b)
        b = rules.sub("R8.throw", r"throw\s+std::(\w+)\(([^;]*)\);", "{ g_thrown = 1; return; }", b)
        b = rules.sub("P.select_call", r"\bselectTestCase\(\);", "{ g_select_calls++; g_members_set_at_select = 1; }", b)
        b = rules.sub("P.omp", r"\bomp_set_num_threads\(max_omp_threads_\);", "g_omp_threads_set = max_omp_threads_;", b)
        b = common_body_rewrites(b, rules, "I")
        if re.search(r"std::|parser_", b):
            raise ExtractError("%s: unhandled construct %s" % (fn, re.search(r"std::\w+|parser_", b).group(0)))
        fns.append("static void %s(void)\n{%s}\n" % (fn, b))
    for name, ty in sorted(opts.items()):
        c.append("static %s opt_%s;" % (ty, name))
    dbl = {"R0_", "Rmax_", "alpha_jump_", "kappa_eps_", "delta_e_", "thread_reduction_factor_", "absolute_tolerance_", "relative_tolerance_", "refinement_radius_"}
    for mname in sorted(members):
        c.append("static %s %s;" % ("double" if mname in dbl else "int", mname))
    c.append("static _Bool absolute_tolerance__has, relative_tolerance__has; static int g_omp_threads_set;")
    c += fns
    return c, opts, members, enums


def valid(enums, en, expr):
    return "(" + " || ".join("%s == %d" % (expr, k) for _, k in enums[en]) + ")"


def parse_job():
    rules, hashes = Rules("parser"), {}
    c, opts, members, enums = parse_unit(rules, hashes)
    h = ["static void havoc_options(void) {"] + ["  opt_%s = nondet_%s();" % (n, t) for n, t in sorted(opts.items())] + ["}"]
    h += ["static void poison_members(void) {"] + ["  %s = %s;" % (m, "-77" if m in ENUM_MEMBERS else ("nondet_double()" if False else "nondet_int()")) for m in sorted(members) if m in ENUM_MEMBERS or True] + ["}"]
    # --- parseGeometry
    h += ["void harness_geometry(void) {", "  havoc_options(); poison_members(); g_thrown = 0; g_select_calls = 0;",
          "  __CPROVER_assume(opt_alpha_jump == opt_alpha_jump && opt_kappa_eps == opt_kappa_eps && opt_delta_e == opt_delta_e);   /* not NaN */", "  parseGeometry();",
          "  const _Bool ok = %s && %s && %s && %s;" % (valid(enums, "AlphaCoeff", "opt_alpha_coeff"), valid(enums, "ProblemType", "opt_problem"),
                                                      valid(enums, "GeometryType", "opt_geometry"), valid(enums, "BetaCoeff", "opt_beta_coeff")),
          "  __CPROVER_assert(g_thrown == !ok, \"OBL:parseGeometry_throws_exactly_when_an_enum_option_is_not_an_enumerator\");",
          "  if (!g_thrown) {",
          "    __CPROVER_assert(alpha_ == opt_alpha_coeff && problem_ == opt_problem && geometry_ == opt_geometry && beta_ == opt_beta_coeff, \"OBL:parseGeometry_enum_members_hold_the_validated_option\");",
          "    __CPROVER_assert(alpha_jump_ == opt_alpha_jump && kappa_eps_ == opt_kappa_eps && delta_e_ == opt_delta_e, \"OBL:parseGeometry_parameters_hold_the_options\");",
          "    __CPROVER_assert(g_select_calls == 1, \"OBL:selectTestCase_is_called_once_after_the_options_are_stored\");",
          "  } else __CPROVER_assert(g_select_calls == 0, \"OBL:no_test_case_is_selected_for_rejected_options\");",
          "  __CPROVER_assert(0, \"COVER:geometry_end\");", "}"]
    # --- parseMultigrid
    h += ["void harness_multigrid(void) {", "  havoc_options(); poison_members(); g_thrown = 0;",
          "  __CPROVER_assume(opt_absoluteTolerance == opt_absoluteTolerance && opt_relativeTolerance == opt_relativeTolerance);   /* not NaN */",
          "  parseMultigrid();",
          "  const _Bool ok = %s && %s && %s && %s;" % (valid(enums, "MultigridCycleType", "opt_FMG_cycle"), valid(enums, "ExtrapolationType", "opt_extrapolation"),
                                                      valid(enums, "MultigridCycleType", "opt_multigridCycle"), valid(enums, "ResidualNormType", "opt_residualNormType")),
          "  __CPROVER_assert(g_thrown == !ok, \"OBL:parseMultigrid_throws_exactly_when_an_enum_option_is_not_an_enumerator\");",
          "  if (!g_thrown) {",
          "    __CPROVER_assert(FMG_cycle_ == opt_FMG_cycle && extrapolation_ == opt_extrapolation && multigrid_cycle_ == opt_multigridCycle && residual_norm_type_ == opt_residualNormType, \"OBL:parseMultigrid_enum_members_hold_the_validated_option\");",
          "    __CPROVER_assert(FMG_ == (opt_FMG != 0) && FMG_iterations_ == opt_FMG_iterations && max_levels_ == opt_maxLevels && pre_smoothing_steps_ == opt_preSmoothingSteps && post_smoothing_steps_ == opt_postSmoothingSteps && max_iterations_ == opt_maxIterations, \"OBL:parseMultigrid_members_hold_the_options\");",
          "    __CPROVER_assert((opt_absoluteTolerance < 0 ? !absolute_tolerance__has : 1) && (opt_absoluteTolerance > 0 ? absolute_tolerance__has : 1) && (!absolute_tolerance__has || absolute_tolerance_ == opt_absoluteTolerance), \"OBL:absolute_tolerance_is_disabled_for_negative_and_kept_for_positive_values\");",
          "    __CPROVER_assert((opt_relativeTolerance < 0 ? !relative_tolerance__has : 1) && (opt_relativeTolerance > 0 ? relative_tolerance__has : 1) && (!relative_tolerance__has || relative_tolerance_ == opt_relativeTolerance), \"OBL:relative_tolerance_is_disabled_for_negative_and_kept_for_positive_values\");",
          "  }", "  __CPROVER_assert(0, \"COVER:multigrid_end\");", "}"]
    # --- parseGeneral + parseGrid
    h += ["void harness_general(void) {", "  havoc_options(); poison_members(); g_thrown = 0;", "  parseGeneral();",
          "  const _Bool ok = %s;" % valid(enums, "StencilDistributionMethod", "opt_stencilDistributionMethod"),
          "  __CPROVER_assert(g_thrown == !ok, \"OBL:parseGeneral_throws_exactly_when_the_stencil_method_is_not_an_enumerator\");",
          "  if (!g_thrown) {",
          "    __CPROVER_assert(stencil_distribution_method_ == opt_stencilDistributionMethod && cache_density_profile_coefficients_ == (opt_cacheDensityProfileCoefficients != 0) && cache_domain_geometry_ == (opt_cacheDomainGeometry != 0), \"OBL:parseGeneral_members_hold_the_options\");",
          "    __CPROVER_assert(verbose_ == opt_verbose && paraview_ == (opt_paraview != 0) && max_omp_threads_ == opt_maxOpenMPThreads && g_omp_threads_set == opt_maxOpenMPThreads, \"OBL:parseGeneral_thread_and_output_options\");",
          "  }", "  __CPROVER_assert(0, \"COVER:general_end\");", "}",
          "void harness_grid(void) {", "  havoc_options(); poison_members(); g_thrown = 0;",
          "  __CPROVER_assume(opt_R0 == opt_R0 && opt_Rmax == opt_Rmax);", "  parseGrid();",
          "  __CPROVER_assert(!g_thrown && R0_ == opt_R0 && Rmax_ == opt_Rmax && nr_exp_ == opt_nr_exp && ntheta_exp_ == opt_ntheta_exp && anisotropic_factor_ == opt_anisotropic_factor && divideBy2_ == opt_divideBy2, \"OBL:parseGrid_members_hold_the_options\");",
          "  __CPROVER_assert(write_grid_file_ == (opt_write_grid_file != 0) && load_grid_file_ == (opt_load_grid_file != 0) && DirBC_Interior_ == (opt_DirBC_Interior != 0), \"OBL:parseGrid_flags_hold_the_options\");",
          "  __CPROVER_assert(0, \"COVER:grid_end\");", "}"]
    jobs = []
    for entry, cover in (("harness_geometry", "COVER:geometry_end"), ("harness_multigrid", "COVER:multigrid_end"), ("harness_general", "COVER:general_end"), ("harness_grid", "COVER:grid_end")):
        j = Job("parser.%s" % entry[8:], "\n".join(c + h), "P", entry=entry, timeout=600, bounded=None,
                functions=["GMGPolar::parseGrid", "GMGPolar::parseGeometry", "GMGPolar::parseMultigrid", "GMGPolar::parseGeneral"], covers={cover})
        j.rules, j.hashes = rules, hashes
        jobs.append(j)
    return jobs


def setup_prologue_job():
    rules, hashes = Rules("parser"), {}
    f = Src.get("src/GMGPolar/setup.cpp").function("GMGPolar::setup")
    b = f["body"]
    a = b.find("if (stencil_distribution_method_ == StencilDistributionMethod::CPU_TAKE)")
    e = b.find("auto finest_grid")
    if a < 0 or e < 0 or e < a:
        raise ExtractError("setup(): take/cache validation prologue not found before the finest grid is created")
    pro = b[a:e]
    hashes["GMGPolar::setup (prologue)"] = sha(pro)
    pro = rules.sub("R8.throw", r"throw\s+std::(\w+)\(((?:[^;\"]|\"[^\"]*\")*)\);", "{ g_thrown = 1; return; }", pro, expect=1)
    pro = common_body_rewrites(pro, rules, "I")
    if re.search(r"std::", pro):
        raise ExtractError("setup prologue: unhandled construct")
    enums = enums_from_header()
    c = ["int nondet_int(void); _Bool nondet_bool(void);", "static _Bool g_thrown, g_build_started;",
         "enum { %s };" % ", ".join("StencilDistributionMethod_%s = %d" % (v, k) for v, k in enums["StencilDistributionMethod"]),
         "static int stencil_distribution_method_; static _Bool cache_density_profile_coefficients_, cache_domain_geometry_;",
         "static void setup_prologue(void)\n{\n%s\n    g_build_started = 1;   /* first statement after the prologue: the finest grid is created */\n}\n" % pro,
         "void harness(void) {",
         "  stencil_distribution_method_ = nondet_int(); cache_density_profile_coefficients_ = nondet_bool(); cache_domain_geometry_ = nondet_bool();",
         "  __CPROVER_assume(stencil_distribution_method_ == 0 || stencil_distribution_method_ == 1);   /* validated by parseGeneral */",
         "  g_thrown = 0; g_build_started = 0; setup_prologue();",
         "  const _Bool bad = stencil_distribution_method_ == StencilDistributionMethod_CPU_TAKE && !(cache_density_profile_coefficients_ && cache_domain_geometry_);",
         "  __CPROVER_assert(g_thrown == bad, \"OBL:take_strategy_without_both_caches_is_rejected_and_nothing_else_is\");",
         "  __CPROVER_assert(g_build_started == !bad, \"OBL:no_level_is_built_for_a_rejected_combination\");",
         "  __CPROVER_assert(0, \"COVER:setup_prologue_end\");", "}"]
    j = Job("parser.setup_prologue", "\n".join(c), "P", timeout=300, bounded=None, functions=["GMGPolar::setup (validation prologue)"], covers={"COVER:setup_prologue_end"})
    j.rules, j.hashes = rules, hashes
    return j


def build_jobs(tier=None, seed=None):
    return parse_job() + [setup_prologue_job()]
