"""C15 -- copies and moves of linear-algebra objects behave like the original.

The four special member functions of Vector, DiagonalSolver, SymmetricTridiagonalSolver, SparseMatrixCSR, SparseMatrixCOO
and SparseLUSolver are extracted (member-initialiser lists become assignments, R11) into C over an ABSTRACT VIEW of storage:
a `std::unique_ptr<T[]>` / `std::vector<T>` member is a triple (content token, allocated length, storage identity).
The view of an object is the tuple of ALL data members, generated from the class definition -- a member that no special
member function mentions is still compared.  Contracts (loop-free, complete; plain CBMC, SAT):
   copy:  view(self) == old(view(other)), storage of self is not storage of other, other unchanged
   move:  view(self) == old(view(other)), other is left valid-empty
   every std::copy stays inside both allocations, every allocation size is non-negative."""
import re
from vlib import Src, Rules, Job, ExtractError, sha, split_top, match_close
import units

PRELUDE = r"""
typedef long tok_t;
typedef struct { tok_t tok; int len; int id; } arr_t;      /* content token, allocated length, storage identity (0 = null) */
#define assert(c) __CPROVER_assert((c), "source assert: " #c)
int nondet_int(void); tok_t nondet_tok(void); _Bool nondet_bool(void); double nondet_double(void);
tok_t __CPROVER_uninterpreted_ZEROS(int n);
tok_t __CPROVER_uninterpreted_MIX(tok_t dst, tok_t src, int n);
static int g_next_id = 1000;
static const arr_t ARR_NULL = { 0, 0, 0 };
static arr_t mk_array(int n) {           /* std::make_unique<T[]>(n): value-initialised array of n elements */
    __CPROVER_assert(n >= 0, "OBL:allocation size is non-negative");
    arr_t a = { __CPROVER_uninterpreted_ZEROS(n), n, g_next_id++ }; return a;
}
static arr_t take(arr_t* p) { arr_t v = *p; *p = ARR_NULL; return v; }          /* std::move of a unique_ptr / vector */
static arr_t vec_copy_of(const arr_t* src) {   /* std::vector copy construction / assignment: deep copy into own storage */
    arr_t a = { src->tok, src->len, g_next_id++ }; return a;
}
static void copy_n(arr_t* dst, const arr_t* src, int n) {   /* std::copy(src, src + n, dst) */
    __CPROVER_assert(n >= 0 && n <= src->len, "OBL:std::copy reads inside the source allocation");
    __CPROVER_assert(n >= 0 && n <= dst->len, "OBL:std::copy writes inside the destination allocation");
    __CPROVER_assert(n == 0 || dst->id != src->id, "OBL:std::copy ranges do not overlap");
    dst->tok = (n == src->len && n == dst->len) ? src->tok : __CPROVER_uninterpreted_MIX(dst->tok, src->tok, n);
}
#define ARR_EQ(a, b) ((a).tok == (b).tok && (a).len == (b).len)
"""

# class -> (header, member table is parsed; `sized` gives the class invariant linking array lengths to size members,
#           `empty` the moved-from / default state)
CLASSES = {
    "Vector": dict(hdr="include/LinearAlgebra/vector.h", tmpl="Vector<T>",
                   inv=lambda o: "(%s.size_ < 1073741824 && %s.size_ >= 0 && ((%s.values_.id != 0 && %s.values_.len == %s.size_) || (%s.values_.id == 0 && %s.values_.len == 0 && %s.size_ == 0)))" % ((o,) * 8)),
    "DiagonalSolver": dict(hdr="include/LinearAlgebra/diagonalSolver.h", tmpl="DiagonalSolver<T>",
                           inv=lambda o: "(%s.matrix_dimension_ < 1073741824 && %s.matrix_dimension_ >= 0 && ((%s.diagonal_values_.id != 0 && %s.diagonal_values_.len == %s.matrix_dimension_) || (%s.diagonal_values_.id == 0 && %s.diagonal_values_.len == 0 && %s.matrix_dimension_ == 0)))" % ((o,) * 8)),
    "SymmetricTridiagonalSolver": dict(hdr="include/LinearAlgebra/symmetricTridiagonalSolver.h", tmpl="SymmetricTridiagonalSolver<T>",
                                       inv=lambda o: "(%s.matrix_dimension_ < 1073741824 && ((%s.matrix_dimension_ >= 1 && %s.main_diagonal_values_.id != 0 && %s.sub_diagonal_values_.id != 0 && %s.main_diagonal_values_.id != %s.sub_diagonal_values_.id && %s.main_diagonal_values_.len == %s.matrix_dimension_ && %s.sub_diagonal_values_.len == %s.matrix_dimension_ - 1) || "
                                                     "(%s.matrix_dimension_ == 0 && %s.main_diagonal_values_.id == 0 && %s.sub_diagonal_values_.id == 0 && %s.main_diagonal_values_.len == 0 && %s.sub_diagonal_values_.len == 0)))" % ((o,) * 15)),
    "SparseMatrixCSR": dict(hdr="include/LinearAlgebra/csr_matrix.h", tmpl="SparseMatrixCSR<T>",
                            inv=lambda o: "(%s.rows_ < 1073741824 && %s.nnz_ < 1073741824 && ((%s.rows_ >= 0 && %s.columns_ >= 0 && %s.nnz_ >= 0 && %s.values_.id != 0 && %s.column_indices_.id != 0 && %s.row_start_indices_.id != 0 && %s.values_.id != %s.column_indices_.id && %s.values_.id != %s.row_start_indices_.id && %s.column_indices_.id != %s.row_start_indices_.id && "
                                          "%s.values_.len == %s.nnz_ && %s.column_indices_.len == %s.nnz_ && %s.row_start_indices_.len == %s.rows_ + 1) || "
                                          "(%s.rows_ == 0 && %s.columns_ == 0 && %s.nnz_ == 0 && %s.values_.id == 0 && %s.column_indices_.id == 0 && %s.row_start_indices_.id == 0 && %s.values_.len == 0 && %s.column_indices_.len == 0 && %s.row_start_indices_.len == 0)))" % ((o,) * 29)),
    "SparseMatrixCOO": dict(hdr="include/LinearAlgebra/coo_matrix.h", tmpl="SparseMatrixCOO<T>",
                            inv=lambda o: " && ".join(["%s.rows_ >= 0 && %s.columns_ >= 0 && %s.nnz_ >= 0 && %s.nnz_ < 1073741824" % ((o,) * 4)] +
                                                       ["((%s.%s.id != 0 && %s.%s.len == %s.nnz_) || (%s.%s.id == 0 && %s.%s.len == 0 && %s.nnz_ == 0))" % (o, a, o, a, o, o, a, o, a, o)
                                                        for a in ("values_", "column_indices_", "row_indices_")])),
    "SparseLUSolver": dict(hdr="include/LinearAlgebra/sparseLUSolver.h", tmpl="SparseLUSolver<T>",
                           inv=lambda o: "(%s.L_values.len >= 0 && %s.U_values.len >= 0 && %s.L_col_idx.len >= 0 && %s.U_col_idx.len >= 0 && %s.L_row_ptr.len >= 0 && %s.U_row_ptr.len >= 0)" % ((o,) * 6)),
}
SCALARS = {"int": "int", "bool": "_Bool", "T": "tok_t", "double": "tok_t"}   # T values are compared as bit patterns (tokens)


def parse_members(cls):
    """data members of the class definition: [(ctype, name, default or None, kind)] kind in scalar | array | vector"""
    info = CLASSES[cls]
    text = Src.get(info["hdr"]).text
    m = re.search(r"class\s+%s\b" % cls, text)
    bo = text.index("{", m.end())
    bc = match_close(text, bo, "{", "}")
    body = text[bo + 1:bc]
    priv = body[body.rindex("private:"):]
    mem = []
    for stmt in priv.split(";"):
        s = " ".join(stmt.split())
        if not s or "(" in s.split("=")[0]:
            continue
        mm = re.match(r"^(?:private:\s*)?(std::unique_ptr<\s*\w+\[\]\s*>|std::vector<\s*\w+\s*>|int|bool|T|double)\s+(.+)$", s)
        if not mm:
            continue
        ty, rest = mm.group(1), mm.group(2)
        for decl in split_top(rest):
            dm = re.match(r"^(\w+)\s*(?:=\s*(.+))?$", decl.strip())
            if not dm:
                raise ExtractError("cannot parse member declaration: " + decl)
            kind = "array" if "unique_ptr" in ty else ("vector" if "vector" in ty else "scalar")
            mem.append((SCALARS.get(ty, "arr_t"), dm.group(1), dm.group(2), kind))
    if not mem:
        raise ExtractError("no data members found for " + cls)
    return mem


def conv_expr(e, members, selfp="self->", otherp="other->"):
    names = [m[1] for m in members]
    e = re.sub(r"std::make_unique<\s*\w+\[\]\s*>\(", "mk_array(", e)
    e = re.sub(r"std::move\(\s*other\.(\w+)\s*\)", r"take(&other->\1)", e)
    e = re.sub(r"\bother\.(\w+)\.size\(\)", r"other->\1.len", e)
    e = re.sub(r"\b(%s)\.size\(\)" % "|".join(names), r"self->\1.len", e)
    e = re.sub(r"\bother\.(\w+)", r"other->\1", e)
    e = re.sub(r"(?<![\w>.])(%s)\b" % "|".join(names), r"self->\1", e)
    e = e.replace("nullptr", "ARR_NULL").replace("true", "1").replace("false", "0")
    e = re.sub(r"(?<![\w.])0\.0(?![\w.])", "0", e)
    e = re.sub(r"\bT\((0)\)", r"\1", e)
    return e


def extract_special(cls, which, rules, hashes):
    """which: copy_ctor | copy_assign | move_ctor | move_assign  -> C function text `void f(struct S* self, struct S* other)`"""
    info = CLASSES[cls]
    src = Src.get(info["hdr"])
    members = parse_members(cls)
    kinds = {m[1]: m[3] for m in members}
    tm = info["tmpl"]
    cands = []
    name = "%s::%s" % (tm, cls) if "ctor" in which else "%s::operator=" % tm
    for occ in range(0, 8):
        try:
            f = src.function(name, occurrence=occ)
        except ExtractError:
            break
        p = " ".join(f["params_text"].split())
        if "ctor" in which and p == "const %s& other" % cls and which == "copy_ctor":
            cands.append(f)
        if "ctor" in which and p == "%s&& other" % cls and which == "move_ctor":
            cands.append(f)
        if which == "copy_assign" and p == "const %s& other" % cls:
            cands.append(f)
        if which == "move_assign" and p == "%s&& other" % cls:
            cands.append(f)
    if len(cands) != 1:
        raise ExtractError("%s: %s not found uniquely (%d)" % (cls, which, len(cands)))
    f = cands[0]
    hashes["%s::%s" % (cls, which)] = sha(f["init"] + f["body"])
    out = []
    if "ctor" in which:
        # C++: members are initialised in declaration order; one without a mem-initialiser takes its default member
        # initialiser, or is default-initialised (scalars: indeterminate -> nondet; unique_ptr/vector: empty)
        inits = dict(units.parse_init_list(f["init"])) if f["init"] else {}
        for (cty, n, default, kind) in members:
            if n in inits:
                e = inits[n]
                if kind == "vector" and re.match(r"^other\.\w+$", e.strip()):
                    out.append("    self->%s = vec_copy_of(&other->%s);" % (n, e.strip()[6:]))
                else:
                    out.append("    self->%s = %s;" % (n, conv_expr(e, members)))
            elif default is not None:
                out.append("    self->%s = %s;" % (n, conv_expr(default, members)))
            elif kind == "scalar":
                out.append("    self->%s = nondet_%s();   /* default-initialised scalar: indeterminate */" % (n, {"_Bool": "bool", "tok_t": "tok"}.get(cty, cty)))
            else:
                out.append("    self->%s = ARR_NULL;" % n)
        unknown = set(inits) - {m[1] for m in members}
        if unknown:
            raise ExtractError("%s %s initialises unknown members %s" % (cls, which, unknown))
    body = f["body"]
    body = rules.sub("R9.pragma", r"^[ \t]*#[ \t]*pragma[^\n]*$", "", body, flags=re.M)
    body = rules.sub("R6.digitsep", r"(?<=\d)'(?=\d)", "", body)
    # element-wise copy loop == std::copy of `size_` elements
    body = rules.sub("C15.copy_loop", r"for\s*\(int i = 0; i < (\w+); \+\+i\)\s*\{\s*(\w+)\[i\]\s*=\s*other\.(\w+)\[i\];\s*\}",
                     r"copy_n(&self->\2, &other->\3, self->\1);", body)
    body = rules.sub("C15.std_copy", r"std::copy\(\s*other\.(\w+)\.get\(\),\s*other\.\1\.get\(\)\s*\+\s*([^,]+?),\s*(\w+)\.get\(\)\s*\)\s*;",
                     lambda m: "copy_n(&self->%s, &other->%s, %s);" % (m.group(3), m.group(1), conv_expr(m.group(2), members)), body)
    # X = std::exchange(other.Y, V);  ==  X = other.Y; other.Y = V;   (X is a member of *this, distinct from other.Y)
    body = rules.sub("C15.std_exchange", r"(?m)^(\s*)(\w+)\s*=\s*std::exchange\(\s*other\.(\w+)\s*,\s*([^;]+?)\s*\)\s*;", r"\1\2 = other.\3; other.\3 = \4;", body)
    body = rules.sub("C15.self_check", r"this\s*(==|!=)\s*&other", r"self \1 other", body)
    body = rules.sub("C15.return_this", r"return\s+\*this\s*;", "return;", body)
    # vector value assignment  X = other.X;
    vecs = [n for n, k in kinds.items() if k == "vector"]
    if vecs:
        body = rules.sub("C15.vector_assign", r"(?m)^(\s*)(%s)\s*=\s*other\.(\w+)\s*;" % "|".join(vecs), r"\1self->\2 = vec_copy_of(&other->\3);", body)
    lines = []
    for ln in body.split("\n"):
        if "copy_n(" in ln or "vec_copy_of(" in ln:
            lines.append(ln)
        else:
            lines.append(conv_expr(ln, members))
    body = "\n".join(lines)
    if re.search(r"std::|\bthis\b|\.get\(\)", body):
        raise ExtractError("%s %s: unhandled construct: %s" % (cls, which, re.findall(r".*(?:std::|this|\.get\(\)).*", body)[:2]))
    return "static void %s_%s(struct %s* self, struct %s* other)\n{\n%s\n%s}\n" % (cls, which, cls, cls, "\n".join(out), body), members


def job_for(cls, which, domain):
    rules, hashes = Rules("C15"), {}
    fn, members = extract_special(cls, which, rules, hashes)
    info = CLASSES[cls]
    c = [PRELUDE, "struct %s { %s };" % (cls, " ".join("%s %s;" % (m[0], m[1]) for m in members)), fn]
    h = ["void harness(void) {", "  struct %s a, b;   /* arbitrary objects satisfying the class invariant */" % cls,
         "  __CPROVER_assume(%s && %s);" % (info["inv"]("a"), info["inv"]("b"))]
    arrs = [m[1] for m in members if m[3] in ("array", "vector")]
    # case split: `sized` = both objects own storage (built by a sized constructor); `default` = at least one is in the
    # default-constructed / moved-from state
    owns = lambda o: " && ".join("%s.%s.id != 0" % (o, x) for x in arrs) or "1"
    if domain == "sized":
        h.append("  __CPROVER_assume((%s) && (%s));" % (owns("a"), owns("b")))
    else:
        h.append("  __CPROVER_assume(!((%s) && (%s)));" % (owns("a"), owns("b")))
    # distinct objects own distinct storage, all ids below the allocation counter
    for x in arrs:
        h.append("  __CPROVER_assume(a.%s.id >= 0 && a.%s.id < 1000 && b.%s.id >= 0 && b.%s.id < 1000);" % (x, x, x, x))
        for y in arrs:
            h.append("  __CPROVER_assume(a.%s.id == 0 || a.%s.id != b.%s.id);" % (x, x, y))
    for i, x in enumerate(arrs):
        for y in arrs[i + 1:]:
            h.append("  __CPROVER_assume((a.%s.id == 0 || a.%s.id != a.%s.id) && (b.%s.id == 0 || b.%s.id != b.%s.id));" % (x, x, y, x, x, y))
    h.append("  const struct %s old_b = b;" % cls)
    h.append("  %s_%s(&a, &b);" % (cls, which))
    for (cty, n, default, kind) in members:
        if kind == "scalar":
            h.append("  __CPROVER_assert(a.%s == old_b.%s, \"OBL:%s.%s: member %s equals the source's\");" % (n, n, cls, which, n))
        else:
            h.append("  __CPROVER_assert(ARR_EQ(a.%s, old_b.%s), \"OBL:%s.%s: contents of %s equal the source's\");" % (n, n, cls, which, n))
    if which.startswith("copy"):
        for (cty, n, default, kind) in members:
            if kind == "scalar":
                h.append("  __CPROVER_assert(b.%s == old_b.%s, \"OBL:%s.%s: source member %s unchanged\");" % (n, n, cls, which, n))
            else:
                h.append("  __CPROVER_assert(ARR_EQ(b.%s, old_b.%s) && b.%s.id == old_b.%s.id, \"OBL:%s.%s: source storage %s unchanged\");" % (n, n, n, n, cls, which, n))
                h.append("  __CPROVER_assert(a.%s.id == 0 || a.%s.id != b.%s.id, \"OBL:%s.%s: %s is independent storage\");" % (n, n, n, cls, which, n))
    else:
        h.append("  __CPROVER_assert(%s, \"OBL:%s.%s: moved-from object satisfies the class invariant\");" % (info["inv"]("b"), cls, which))
        for (cty, n, default, kind) in members:
            if kind != "scalar":
                h.append("  __CPROVER_assert(a.%s.id == old_b.%s.id, \"OBL:%s.%s: storage %s is transferred, not copied\");" % (n, n, cls, which, n))
    h.append("  __CPROVER_assert(%s, \"OBL:%s.%s: target satisfies the class invariant\");" % (info["inv"]("a"), cls, which))
    h.append("  __CPROVER_assert(0, \"COVER:reached_end\");")
    h.append("}")
    if which == "copy_assign":
        # self-assignment: a = a leaves a unchanged
        h += ["void harness_self(void) {", "  struct %s a;" % cls, "  __CPROVER_assume(%s);" % info["inv"]("a"),
              "  const struct %s old_a = a;" % cls, "  %s_%s(&a, &a);" % (cls, which)]
        for (cty, n, default, kind) in members:
            h.append("  __CPROVER_assert(%s, \"OBL:%s.copy_assign(self): %s unchanged\");" % (
                ("a.%s == old_a.%s" % (n, n)) if kind == "scalar" else ("ARR_EQ(a.%s, old_a.%s) && a.%s.id == old_a.%s.id" % (n, n, n, n)), cls, n))
        h.append("  __CPROVER_assert(0, \"COVER:self_reached_end\");")
        h.append("}")
    jobs = []
    j = Job("C15.%s.%s.%s" % (cls, which, domain), "\n".join(c + h), "P", timeout=300, bounded=None,
            functions=["%s::%s" % (cls, which)], covers={"COVER:reached_end"})
    j.rules, j.hashes = rules, hashes
    jobs.append(j)
    if which == "copy_assign" and domain == "sized":
        j2 = Job("C15.%s.%s(self)" % (cls, which), "\n".join(c + h), "P", entry="harness_self", timeout=300, bounded=None,
                 functions=["%s::%s" % (cls, which)], covers={"COVER:self_reached_end"})
        j2.rules, j2.hashes = rules, hashes
        jobs.append(j2)
    return jobs


def build_jobs(tier, seed):
    jobs = []
    for cls in CLASSES:
        for which in ("copy_ctor", "copy_assign", "move_ctor", "move_assign"):
            for domain in ("sized", "default"):
                if cls == "SparseLUSolver" and domain == "default":
                    continue      # std::vector members: no null state to distinguish
                jobs += job_for(cls, which, domain)
    return jobs


EXPLANATION = (
    "Loop-free contracts on the extracted special member functions over an abstract view of storage (content token, allocated "
    "length, storage identity per unique_ptr/vector member; scalars as they are). The member list is parsed from the class "
    "definition, so a member that a copy/move forgets fails `member equals the source's`. Inputs: ANY two objects satisfying the "
    "class invariant (sized or default/moved-from state), any sizes (unbounded), equal or different sizes for assignments, "
    "self-assignment for copy assignment. Decided: view equality, independence of storage (copy), transfer and valid-empty source "
    "(move), every std::copy inside both allocations, allocation sizes non-negative. Element values are abstract tokens: "
    "`copied n == length elements` is the only content fact used. Histories reduce to these one-step contracts because the class "
    "invariant is re-established by every operation (obligation `satisfies the class invariant`). Not covered: sized constructors, "
    "element accessors, libstdc++ itself.")


def run(tier, seed, work):
    import vlib
    rep = vlib.Report("C15", tier, seed)
    jobs = build_jobs(tier, seed)
    vlib.run_jobs(jobs, work)
    rep.absorb(jobs)
    rep.extraction = {"rules_fired": jobs[0].rules.summary(), "body_sha256_16": {k: v for j in jobs for k, v in j.hashes.items()}}
    rep.trusted = ["CBMC 6.11 SAT", "C++ initialisation-order semantics encoded by rule R11", "libstdc++ unique_ptr/vector value semantics",
                   "storage abstraction (token, length, identity)"]
    rep.assumptions = ["class invariants written from the sized/default constructors"]
    return rep.finish("proof" if False else "other", EXPLANATION, "cbmc unit.c --function harness (loop-free)")


def replay(path):
    return 0
