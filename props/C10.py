"""C10 -- each multigrid cycle is a consistent correction scheme (Layer T, unbounded in the number of levels
and in the smoothing counts: function contracts + loop contracts through goto-instrument --dfcc)."""
import re
from vlib import Src, Rules, Job, ExtractError
import layert

STD = ["multigrid_V_Cycle", "multigrid_W_Cycle", "multigrid_F_Cycle"]
EXT = ["implicitlyExtrapolatedMultigrid_V_Cycle", "implicitlyExtrapolatedMultigrid_W_Cycle",
       "implicitlyExtrapolatedMultigrid_F_Cycle"]

# ---- contract of the three standard cycles (taken from the property statement) --------------------------------
STD_CONTRACT = r"""
__CPROVER_requires(2 <= number_of_levels_ && number_of_levels_ <= MAXL)
__CPROVER_requires(0 <= level_depth && level_depth < number_of_levels_ - 1)
__CPROVER_requires(VALID(solution) && VALID(rhs) && VALID(residual) && SAME_LEVEL3(level_depth, solution, rhs, residual))
__CPROVER_requires(solution != rhs && solution != residual && rhs != residual)
__CPROVER_requires(ALLOC(solution) && ALLOC(rhs) && ALLOC(residual))
/* frame: the iterate, the scratch vector, and solution / residual / error_correction of every deeper level;
   no right-hand side of any level, nothing on a finer level */
__CPROVER_assigns(tok[solution], tok[residual])
__CPROVER_assigns(__CPROVER_object_upto(&tok[HV(level_depth + 1, V_SOLUTION)], (MAXL - level_depth - 1) * sizeof(tok_t)))
__CPROVER_assigns(__CPROVER_object_upto(&tok[HV(level_depth + 1, V_RESIDUAL)], (MAXL - level_depth - 1) * sizeof(tok_t)))
__CPROVER_assigns(__CPROVER_object_upto(&tok[HV(level_depth + 1, V_ERROR_CORRECTION)], (MAXL - level_depth - 1) * sizeof(tok_t)))
/* (0) functional specification: the result is MG(kind, depth, iterate, rhs) -- the textbook recursion, a function of
       the iterate and the right-hand side ONLY (no scratch vector of any level enters) */
__CPROVER_ensures(tok[solution] == MG(@KIND@, level_depth, __CPROVER_old(tok[solution]), __CPROVER_old(tok[rhs])))
/* (1) started from the exact discrete solution the cycle returns it unchanged -- any smoothing counts, any depth,
       any content of every scratch vector */
__CPROVER_ensures(!FIX(level_depth, __CPROVER_old(tok[solution]), __CPROVER_old(tok[rhs])) ||
                  tok[solution] == __CPROVER_old(tok[solution]))
/* (2) with smoothing switched off a two-level cycle is u + P A_c^{-1} R (f - A u) */
__CPROVER_ensures(!(pre_smoothing_steps_ <= 0 && post_smoothing_steps_ <= 0 && level_depth + 1 == number_of_levels_ - 1) ||
                  tok[solution] == ADD(__CPROVER_old(tok[solution]),
                                       PROL(level_depth + 1, SOLVE(level_depth + 1, RESTR(level_depth,
                                            RESID(level_depth, __CPROVER_old(tok[rhs]), __CPROVER_old(tok[solution])))))))
"""
STD_PROLOGUE = r"""
    /* ghost state (verification only) */
    const tok_t g_u0 = tok[solution]; const tok_t g_f0 = tok[rhs];
    const _Bool g_fix = FIX(level_depth, g_u0, g_f0);
    const _Bool g_two = (pre_smoothing_steps_ <= 0 && post_smoothing_steps_ <= 0 && level_depth + 1 == number_of_levels_ - 1);
    const tok_t g_cgc = ADD(g_u0, PROL(level_depth + 1, SOLVE(level_depth + 1, RESTR(level_depth, RESID(level_depth, g_f0, g_u0)))));
    /* definition of MG(kind, depth, u, f), unfolded once at this instance (ghost arrays g_pre / g_post hold the iterates of
       the two smoothing loops: g_x[i+1] = SMOOTH(g_x[i]) is added instance-wise inside the loops) */
    const int g_npre = pre_smoothing_steps_ < 0 ? 0 : pre_smoothing_steps_;
    const int g_npost = post_smoothing_steps_ < 0 ? 0 : post_smoothing_steps_;
    __CPROVER_assume(g_pre[0] == g_u0);
    const tok_t g_rr = RESTR(level_depth, RESID(level_depth, g_f0, g_pre[g_npre]));
    const tok_t g_e = (level_depth + 1 == number_of_levels_ - 1) ? SOLVE(level_depth + 1, g_rr) : @REC@;
    __CPROVER_assume(g_post[0] == ADD(g_pre[g_npre], PROL(level_depth + 1, g_e)));
    __CPROVER_assume(MG(@KIND@, level_depth, g_u0, g_f0) == g_post[g_npost]);
"""
REC = {"multigrid_V_Cycle": "MG(0, level_depth + 1, ZERO, g_rr)",
       "multigrid_W_Cycle": "MG(1, level_depth + 1, MG(1, level_depth + 1, ZERO, g_rr), g_rr)",
       "multigrid_F_Cycle": "MG(0, level_depth + 1, MG(2, level_depth + 1, ZERO, g_rr), g_rr)"}
KIND = {"multigrid_V_Cycle": "0", "multigrid_W_Cycle": "1", "multigrid_F_Cycle": "2"}
MG_DEFS = r"""
/* functional specification of the standard cycles: MG(kind, depth, iterate, rhs); kind 0 = V, 1 = W, 2 = F */
tok_t __CPROVER_uninterpreted_MG(int kind, int depth, tok_t u, tok_t f);
#define MG __CPROVER_uninterpreted_MG
tok_t __CPROVER_uninterpreted_EMG(int kind, tok_t u, tok_t f0, tok_t f1, _Bool full_grid_smoothing);
#define EMG __CPROVER_uninterpreted_EMG
tok_t g_pre[__CPROVER_constant_infinity_uint], g_post[__CPROVER_constant_infinity_uint];   /* ghost */
"""
PRE_LOOP = r"""
    __CPROVER_assigns(i, tok[solution], tok[residual])
    __CPROVER_loop_invariant(0 <= i && (i <= pre_smoothing_steps_ || pre_smoothing_steps_ < 0))
    __CPROVER_loop_invariant(!g_fix || tok[solution] == g_u0)
    __CPROVER_loop_invariant(i > 0 || tok[solution] == g_u0)
    __CPROVER_loop_invariant(tok[solution] == g_pre[i])
    __CPROVER_decreases(pre_smoothing_steps_ - i)
"""
PRE_GHOST = "        __CPROVER_assume(g_pre[i + 1] == SMOOTH(level_depth, g_pre[i], g_f0));   /* ghost: definition of g_pre */"
POST_GHOST = "        __CPROVER_assume(g_post[i + 1] == SMOOTH(level_depth, g_post[i], g_f0));   /* ghost: definition of g_post */"
POST_LOOP = r"""
    __CPROVER_assigns(i, tok[solution], tok[residual])
    __CPROVER_loop_invariant(0 <= i && (i <= post_smoothing_steps_ || post_smoothing_steps_ < 0))
    __CPROVER_loop_invariant(!g_fix || tok[solution] == g_u0)
    __CPROVER_loop_invariant(!g_two || tok[solution] == g_cgc)
    __CPROVER_loop_invariant(@POSTINV@)
    __CPROVER_decreases(post_smoothing_steps_ - i)
"""

# ---- extrapolated cycles (level 0 only) ---------------------------------------------------------------------------
# exact solution of the extrapolated system: both smoothers leave it unchanged and the combined residual
# 4/3 R_ex (f - A u) - 1/3 (f_c - A_c Inj u) vanishes (property statement)
EXT_CONTRACT = r"""
__CPROVER_requires(2 <= number_of_levels_ && number_of_levels_ <= MAXL)
__CPROVER_requires(level_depth == 0)
__CPROVER_requires(extrapolation_ != ExtrapolationType_NONE)
__CPROVER_requires(VALID(solution) && VALID(rhs) && VALID(residual) && SAME_LEVEL3(level_depth, solution, rhs, residual))
__CPROVER_requires(solution != rhs && solution != residual && rhs != residual)
__CPROVER_requires(ALLOC(solution) && ALLOC(rhs) && ALLOC(residual))
__CPROVER_requires(rhs != HV(1, V_RHS))
__CPROVER_assigns(tok[solution], tok[residual])
__CPROVER_assigns(__CPROVER_object_upto(&tok[HV(level_depth + 1, V_SOLUTION)], (MAXL - level_depth - 1) * sizeof(tok_t)))
__CPROVER_assigns(__CPROVER_object_upto(&tok[HV(level_depth + 1, V_RESIDUAL)], (MAXL - level_depth - 1) * sizeof(tok_t)))
__CPROVER_assigns(__CPROVER_object_upto(&tok[HV(level_depth + 1, V_ERROR_CORRECTION)], (MAXL - level_depth - 1) * sizeof(tok_t)))
__CPROVER_ensures(tok[solution] == EMG(@KIND@, __CPROVER_old(tok[solution]), __CPROVER_old(tok[rhs]), __CPROVER_old(tok[HV(1, V_RHS)]), full_grid_smoothing_))
__CPROVER_ensures(!EXFIX(__CPROVER_old(tok[solution]), __CPROVER_old(tok[rhs]), __CPROVER_old(tok[HV(1, V_RHS)])) ||
                  tok[solution] == __CPROVER_old(tok[solution]))
__CPROVER_ensures(!(pre_smoothing_steps_ <= 0 && post_smoothing_steps_ <= 0 && level_depth + 1 == number_of_levels_ - 1) ||
                  tok[solution] == ADD(__CPROVER_old(tok[solution]), EXPROL(1, SOLVE(1, EXCOMB(__CPROVER_old(tok[solution]),
                                       __CPROVER_old(tok[rhs]), __CPROVER_old(tok[HV(1, V_RHS)]))))))
"""
EXT_DEFS = r"""
/* the extrapolated coarse right-hand side of the property statement: 4/3 of the restricted fine residual minus 1/3 of
   the coarse residual of the injected iterate */
#define EXCOMB(u, f0, f1) LC(EXRESTR(0, RESID(0, f0, u)), 4.0 / 3.0, RESID(1, f1, INJ(0, u)), -1.0 / 3.0)
#define EXFIX(u, f0, f1) (EXSMOOTH(0, u, f0) == (u) && SMOOTH(0, u, f0) == (u) && EXCOMB(u, f0, f1) == ZERO)
"""
EXT_PROLOGUE = r"""
    const tok_t g_u0 = tok[solution]; const tok_t g_f0 = tok[rhs]; const tok_t g_f1 = tok[HV(1, V_RHS)];
    const _Bool g_fix = EXFIX(g_u0, g_f0, g_f1);
    const _Bool g_two = (pre_smoothing_steps_ <= 0 && post_smoothing_steps_ <= 0 && level_depth + 1 == number_of_levels_ - 1);
    const tok_t g_cgc = ADD(g_u0, EXPROL(1, SOLVE(1, EXCOMB(g_u0, g_f0, g_f1))));
    /* definition of EMG(kind, u, f0, f1, full_grid_smoothing), unfolded once */
    const int g_npre = pre_smoothing_steps_ < 0 ? 0 : pre_smoothing_steps_;
    const int g_npost = post_smoothing_steps_ < 0 ? 0 : post_smoothing_steps_;
    __CPROVER_assume(g_pre[0] == g_u0);
    const tok_t g_rr = EXCOMB(g_pre[g_npre], g_f0, g_f1);
    const tok_t g_e = (level_depth + 1 == number_of_levels_ - 1) ? SOLVE(level_depth + 1, g_rr) : @REC@;
    __CPROVER_assume(g_post[0] == ADD(g_pre[g_npre], EXPROL(level_depth + 1, g_e)));
    __CPROVER_assume(EMG(@KIND@, g_u0, g_f0, g_f1, full_grid_smoothing_) == g_post[g_npost]);
"""
EXT_PRE_GHOST = "        __CPROVER_assume(g_pre[i + 1] == (full_grid_smoothing_ ? SMOOTH(0, g_pre[i], g_f0) : EXSMOOTH(0, g_pre[i], g_f0)));"
EXT_POST_GHOST = "        __CPROVER_assume(g_post[i + 1] == (full_grid_smoothing_ ? SMOOTH(0, g_post[i], g_f0) : EXSMOOTH(0, g_post[i], g_f0)));"
EXT_KIND = {"implicitlyExtrapolatedMultigrid_V_Cycle": "0", "implicitlyExtrapolatedMultigrid_W_Cycle": "1",
            "implicitlyExtrapolatedMultigrid_F_Cycle": "2"}
EXT_REC = {k: v.replace("level_depth + 1", "1") for k, v in
           (("implicitlyExtrapolatedMultigrid_V_Cycle", "MG(0, level_depth + 1, ZERO, g_rr)"),
            ("implicitlyExtrapolatedMultigrid_W_Cycle", "MG(1, level_depth + 1, MG(1, level_depth + 1, ZERO, g_rr), g_rr)"),
            ("implicitlyExtrapolatedMultigrid_F_Cycle", "MG(0, level_depth + 1, MG(2, level_depth + 1, ZERO, g_rr), g_rr)"))}


STATE_SETUP = r"""
    /* arbitrary pre-state: every vector of every level holds an arbitrary token, every option is arbitrary */
    for (int hv_i = 0; hv_i < NV; hv_i++) { tok_t fresh_t; tok[hv_i] = fresh_t; }
    { int v; number_of_levels_ = v; } { int v; pre_smoothing_steps_ = v; } { int v; post_smoothing_steps_ = v; }
    { _Bool v; full_grid_smoothing_ = v; } { _Bool v; FMG_ = v; } { int v; extrapolation_ = v; }
    __CPROVER_assume(0 <= extrapolation_ && extrapolation_ <= 3);
"""
CYCLE_PARAMS = [("const int", "level_depth"), ("vec_t", "solution"), ("vec_t", "rhs"), ("vec_t", "residual")]
MAXL = 8


def build_jobs(tier, seed):
    rules, hashes = Rules("C10"), {}
    pre = layert.prelude(MAXL) + EXT_DEFS + MG_DEFS
    ops = layert.parse_contract_decls(pre)
    ext_c = None
    std_c = None
    jobs = []
    for n in STD + EXT:
        c = [pre]
        for o, (params, con) in ops.items():
            c.append(layert.contract_stub(o, params, con))
        # every cycle function a body may call is present as its contract (recursion is closed by the same contract)
        for m in STD:
            c.append(layert.contract_stub(m, CYCLE_PARAMS, layert.parse_contract(STD_CONTRACT.replace("@KIND@", KIND[m]))))
        if n in STD:
            prol = STD_PROLOGUE.replace("@KIND@", KIND[n]).replace("@REC@", REC[n])
            loops = [(PRE_LOOP.replace("tok[solution] == g_pre[i]", "tok[solution] == g_pre[i]"), PRE_GHOST),
                     (POST_LOOP.replace("@POSTINV@", "tok[solution] == g_post[i]"), POST_GHOST)]
            std_c = layert.parse_contract(STD_CONTRACT.replace("@KIND@", KIND[n]))
        else:
            prol = EXT_PROLOGUE.replace("@KIND@", EXT_KIND[n]).replace("@REC@", EXT_REC[n])
            loops = [(PRE_LOOP, EXT_PRE_GHOST), (POST_LOOP.replace("@POSTINV@", "tok[solution] == g_post[i]"), EXT_POST_GHOST)]
            ext_c = layert.parse_contract(EXT_CONTRACT.replace("@KIND@", EXT_KIND[n]))
        body = layert.extract_cycle(n, rules, hashes, "", prol, loops)
        body = body.replace("void %s(" % n, "void %s__impl(" % n, 1)
        c.append(body)
        c.append(layert.enforce_harness(n, CYCLE_PARAMS, std_c if n in STD else ext_c, STATE_SETUP))
        job = Job("C10." + n, "\n".join(c), "M", entry="harness_" + n, loop_contracts=True, timeout=900,
                  unwind=4 * MAXL + 1, functions=["GMGPolar::" + n], bounded=None,
                  covers={"COVER:%s.returned" % n})
        job.rules, job.hashes = rules, hashes
        jobs.append(job)
    return jobs


EXPLANATION = "C10 work in progress"


def run(tier, seed, work):
    import vlib
    rep = vlib.Report("C10", tier, seed)
    jobs = build_jobs(tier, seed)
    vlib.run_jobs(jobs, work)
    rep.absorb(jobs)
    rep.extraction = {"rules_fired": jobs[0].rules.summary(), "body_sha256_16": jobs[0].hashes}
    return rep.finish("other", EXPLANATION, "goto-cc; goto-instrument --dfcc H --enforce-contract[-rec] f --replace-call-with-contract g* --apply-loop-contracts; cbmc --z3")
