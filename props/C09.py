"""C09 -- see props/driver.py"""
import driver

EXPLANATION = 'Start-up half of C09. GMGPolar::initializeSolution (real text) is verified against the textbook nested iteration written from the property: U[L-1] = A^{-1} f on the coarsest level; U[l-1] = Cycle^{FMG_iterations}(FMGInterp(U[l])) (ghost arrays, definitions unfolded instance-wise); result token on level 0 == U[0], a function of the right-hand sides only, for arbitrary old contents of every work vector, every number of levels 2..8, every FMG cycle type and iteration count including 0; two levels + no cycles == FMGInterp(coarse solve). The interpolation-weights half (cubic exactness) is decided in Layer R jobs of this check when present (see obligations named fmg_weights).'


def run(tier, seed, work):
    return driver.run_property("C09", tier, seed, work, ("initializeSolution", "solve"), EXPLANATION)


def replay(path):
    import json
    print(json.dumps(json.load(open(path)), indent=1)[:4000])
    return 0
