"""C17 -- node numbering: index / multiIndex are mutually inverse bijections onto 0..N-1, fast == reference, angular
indices wrap for any integer, the circle/radial split partitions the nodes, the split invariants hold.

Plain CBMC (SAT) on the verbatim inline functions of include/PolarGrid/polargrid.inl and the reference functions of
src/PolarGrid/polargrid.cpp.  Shapes: ntheta CONCRETE per job (division/modulo by a symbolic ntheta does not finish on any
back end, DESIGN 2.6), nr and the split SYMBOLIC (2 <= nr <= 2^15, 0 <= split <= nr), node indices and the unwrapped angular
index SYMBOLIC over the full int range.  => bounded in ntheta (list in the evidence), unbounded in everything else."""
import re
from vlib import Src, Rules, Job, ExtractError, common_body_rewrites, sha, fn_to_macro
import units

REF = "src/PolarGrid/polargrid.cpp"


def reference_functions(G, rules, hashes):
    """PolarGrid::index(const MultiIndex&) and PolarGrid::multiIndex(int) of polargrid.cpp, instantiated for object G.
    MultiIndex position -> two ints (position[0], position[1]); `return MultiIndex(a, b)` -> out-parameters."""
    src = Src.get(REF)
    out = []
    f = src.function("PolarGrid::index", must_params=["position"])
    hashes["PolarGrid::index(MultiIndex)"] = sha(f["body"])
    b = common_body_rewrites(f["body"], rules, "I")
    b = rules.sub("C17.position", r"\bposition\[(\d)\]", r"position_\1", b)
    b = re.sub(r"\b(nr|ntheta|numberSmootherCircles|numberCircularSmootherNodes|lengthSmootherRadial|numberOfNodes)\(\)", lambda m: "%s__%s()" % (G, m.group(1)), b)
    out.append("static int %s__index_ref(const int position_0, const int position_1)\n{%s}\n" % (G, b))
    f = src.function("PolarGrid::multiIndex", must_params=["node_index"])
    hashes["PolarGrid::multiIndex(int)->MultiIndex"] = sha(f["body"])
    b = common_body_rewrites(f["body"], rules, "I")
    b = rules.sub("C17.stddiv", r"auto\s+result\s*=\s*std::div\(", "const div_t result = vdiv(", b, expect=2)
    b = rules.sub("C17.return_multiindex", r"return\s+MultiIndex\(([^,]+),\s*([^;]+)\);", r"{ *out_r = \1; *out_theta = \2; return; }", b, expect=2)
    b = re.sub(r"\b(nr|ntheta|numberSmootherCircles|numberCircularSmootherNodes|lengthSmootherRadial|numberOfNodes)\(\)", lambda m: "%s__%s()" % (G, m.group(1)), b)
    out.append("typedef struct { int quot, rem; } div_t;\nstatic div_t vdiv(int a, int b) { div_t r = { a / b, a % b }; return r; }")
    out.append("static void %s__multiIndex_ref(const int node_index, int* out_r, int* out_theta)\n{%s}\n" % (G, b))
    return "\n".join(out)


NTHETAS_QUICK = [4, 6, 8, 10, 12, 16, 20, 24, 32, 48, 64]
NTHETAS_THOROUGH = sorted(set(list(range(2, 35, 2)) + [3, 5, 7, 9, 40, 48, 64, 96, 100, 128, 256, 1024]))


def job_for(nt, nrmax=17):
    rules, hashes = Rules("C17"), {}
    c = [units.PRELUDE_I, units.POLARGRID_STRUCT]
    c.append(units.polargrid_instance("G", "I", rules, 4, 4, hashes))
    c.append(reference_functions("G", rules, hashes))
    pow2 = 1 if (nt & (nt - 1)) == 0 else 0
    h = r"""
void harness(void) {
    /* class invariant established by PolarGrid::initializeLineSplitting and the constructors */
    int nr = nondet_int(), nsc = nondet_int();
    __CPROVER_assume(2 <= nr && nr <= @NRMAX@ && 0 <= nsc && nsc <= nr);
    G__nr_ = nr; G__ntheta_ = @NT@; G__is_ntheta_PowerOfTwo_ = @POW2@;
    G__number_smoother_circles_ = nsc; G__length_smoother_radial_ = nr - nsc;
    G__number_circular_smoother_nodes_ = nsc * @NT@; G__number_radial_smoother_nodes_ = (nr - nsc) * @NT@;
    const int N = nr * @NT@;
    int i_r = nondet_int(), i_theta = nondet_int(), u = nondet_int(), k = nondet_int();
    __CPROVER_assume(0 <= i_r && i_r < nr && 0 <= i_theta && i_theta < @NT@ && 0 <= k && k < N);

    /* (a) angular wrap: any int is mapped into [0, ntheta) and stays in its residue class */
    const int w = G.wrapThetaIndex(u);
    __CPROVER_assert(0 <= w && w < @NT@, "OBL:wrap_in_range");
    __CPROVER_assert(((long)u - (long)w) % @NT@ == 0, "OBL:wrap_is_congruent_mod_ntheta");
    /* (b) index range, fast == general == reference */
    const int idx = G.index(i_r, i_theta);
    __CPROVER_assert(0 <= idx && idx < N, "OBL:index_in_range");
    __CPROVER_assert(G.fastIndex(i_r, i_theta) == idx, "OBL:fastIndex_equals_index");
    __CPROVER_assert(G__index_ref(i_r, i_theta) == idx, "OBL:reference_index_equals_index");
    /* periodicity of index in the angular argument for ANY int offset */
    __CPROVER_assert(G.index(i_r, u) == G.index(i_r, w), "OBL:index_periodic_in_theta");
    /* (c) inverse bijections */
    int r2, t2; G__multiIndex(idx, r2, t2);
    __CPROVER_assert(r2 == i_r && t2 == i_theta, "OBL:multiIndex_after_index_is_identity");
    int r3, t3; G__multiIndex(k, r3, t3);
    __CPROVER_assert(0 <= r3 && r3 < nr && 0 <= t3 && t3 < @NT@, "OBL:multiIndex_in_range");
    __CPROVER_assert(G.index(r3, t3) == k, "OBL:index_after_multiIndex_is_identity");
    int r4, t4; G__multiIndex_ref(k, &r4, &t4);
    __CPROVER_assert(r4 == r3 && t4 == t3, "OBL:reference_multiIndex_equals_multiIndex");
    /* (d) the split partitions the nodes */
    __CPROVER_assert((idx < G.numberCircularSmootherNodes()) == (i_r < nsc), "OBL:circle_radial_partition");
    __CPROVER_assert(G.numberCircularSmootherNodes() + G.numberRadialSmootherNodes() == G.numberOfNodes(), "OBL:split_counts_add_up");
    __CPROVER_assert(0, "COVER:reached_end");
}
""".replace("@NT@", str(nt)).replace("@POW2@", str(pow2)).replace("@NRMAX@", str(nrmax))
    j = Job("C17.index[ntheta=%d]" % nt, "\n".join(c) + h, "P", timeout=600,
            bounded="unwind 0 (loop-free); ntheta fixed = %d, nr <= 32768 and split symbolic, indices and unwrapped angle symbolic" % nt,
            functions=["PolarGrid::wrapThetaIndex", "PolarGrid::index", "PolarGrid::fastIndex", "PolarGrid::multiIndex(int,int&,int&)",
                       "PolarGrid::index(MultiIndex)", "PolarGrid::multiIndex(int)"],
            covers={"COVER:reached_end"})
    j.rules, j.hashes = rules, hashes
    return j


def build_jobs(tier, seed):
    return [job_for(nt) for nt in (NTHETAS_QUICK if tier == "quick" else NTHETAS_THOROUGH)]


EXPLANATION = (
    "Plain CBMC (SAT, loop-free => complete for the stated domain) on the verbatim inline functions wrapThetaIndex, index, "
    "fastIndex, multiIndex(int,int&,int&) of polargrid.inl and the reference index(MultiIndex)/multiIndex(int) of polargrid.cpp: "
    "for each listed ntheta (both wrap code paths), EVERY nr in 2..32768, EVERY split 0..nr, every node and EVERY 32-bit unwrapped "
    "angular index: range, congruence, periodicity, fast == reference, both compositions are the identity, circle/radial partition. "
    "Bounded in ntheta only (a symbolic divisor does not terminate on any installed back end). Neighbour/spacing queries and "
    "coarseningGrid (std::vector / std::array code) are not covered here; the spacing == coordinate difference contract is used as an "
    "assumption by the Layer-R checks.")


def run(tier, seed, work):
    import vlib
    rep = vlib.Report("C17", tier, seed)
    jobs = build_jobs(tier, seed)
    vlib.run_jobs(jobs, work)
    rep.absorb(jobs)
    rep.extraction = {"rules_fired": jobs[0].rules.summary(), "body_sha256_16": jobs[0].hashes}
    rep.trusted = ["CBMC 6.11 SAT back end", "extractor rules R1-R10 + C17.position/stddiv/return_multiindex", "32-bit int"]
    rep.assumptions = ["class invariant of the split fields (nsc + lsr == nr, node counts) as established by initializeLineSplitting",
                       "ntheta from the listed set"]
    rc = rep.finish("other", EXPLANATION, "cbmc unit.c --function harness (loop-free, all checks on)")
    return rc


def replay(path):
    return 0
