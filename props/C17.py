"""C17 -- node numbering: index / multiIndex are mutually inverse bijections onto 0..N-1, fast == reference, angular
indices wrap for any integer, the circle/radial split partitions the nodes, the split invariants hold.

Plain CBMC (SAT) on the verbatim inline functions of include/PolarGrid/polargrid.inl and the reference functions of
src/PolarGrid/polargrid.cpp.  Shapes: ntheta CONCRETE per job (division/modulo by a symbolic ntheta does not finish on any
back end, DESIGN 2.6), nr and the split SYMBOLIC (2 <= nr <= 17: the divisor nr - split of multiIndex is symbolic, 0 <= split <= nr), node indices and the unwrapped angular
index SYMBOLIC over the full int range.  => bounded in ntheta (list in the evidence), unbounded in everything else."""
import re
from vlib import Src, Rules, Job, ExtractError, common_body_rewrites, sha, fn_to_macro, match_close
import units

REF = "src/PolarGrid/polargrid.cpp"


def reference_functions(G, rules, hashes):
    """PolarGrid::index(const MultiIndex&) and PolarGrid::multiIndex(int) of polargrid.cpp, instantiated for object G.
    MultiIndex position -> two ints (position[0], position[1]); `return MultiIndex(a, b)` -> out-parameters."""
    src = Src.get(REF)
    out = []
    f = src.function("PolarGrid::index", must_params=["position"])
    hashes["PolarGrid::index(MultiIndex)"] = sha(f["body"])
    b = common_body_rewrites(f["body"], rules, "I")
    b = rules.sub("C17.position", r"\bposition\[(\d)\]", r"position_\1", b)
    b = re.sub(r"\b(nr|ntheta|numberSmootherCircles|numberCircularSmootherNodes|lengthSmootherRadial|numberOfNodes)\(\)", lambda m: "%s__%s()" % (G, m.group(1)), b)
    out.append("static int %s__index_ref(const int position_0, const int position_1)\n{%s}\n" % (G, b))
    f = src.function("PolarGrid::multiIndex", must_params=["node_index"])
    hashes["PolarGrid::multiIndex(int)->MultiIndex"] = sha(f["body"])
    b = common_body_rewrites(f["body"], rules, "I")
    b = rules.sub("C17.stddiv", r"auto\s+result\s*=\s*std::div\(", "const div_t result = vdiv(", b, expect=2)
    b = rules.sub("C17.return_multiindex", r"return\s+MultiIndex\(([^,]+),\s*([^;]+)\);", r"{ *out_r = \1; *out_theta = \2; return; }", b, expect=2)
    b = re.sub(r"\b(nr|ntheta|numberSmootherCircles|numberCircularSmootherNodes|lengthSmootherRadial|numberOfNodes)\(\)", lambda m: "%s__%s()" % (G, m.group(1)), b)
    out.append("typedef struct { int quot, rem; } div_t;\nstatic div_t vdiv(int a, int b) { div_t r = { a / b, a % b }; return r; }")
    out.append("static void %s__multiIndex_ref(const int node_index, int* out_r, int* out_theta)\n{%s}\n" % (G, b))
    return "\n".join(out)


NTHETAS_QUICK = [4, 6, 8, 10, 12, 16, 20, 24, 32, 48, 64]
NTHETAS_THOROUGH = sorted(set(list(range(2, 35, 2)) + [3, 5, 7, 9, 40, 48, 64, 96, 100, 128, 256, 1024]))


def job_for(nt, nrmax=17):
    rules, hashes = Rules("C17"), {}
    c = [units.PRELUDE_I, units.POLARGRID_STRUCT]
    c.append(units.polargrid_instance("G", "I", rules, 4, 4, hashes))
    c.append(reference_functions("G", rules, hashes))
    pow2 = 1 if (nt & (nt - 1)) == 0 else 0
    h = r"""
void harness(void) {
    /* class invariant established by PolarGrid::initializeLineSplitting and the constructors */
    int nr = nondet_int(), nsc = nondet_int();
    __CPROVER_assume(2 <= nr && nr <= @NRMAX@ && 0 <= nsc && nsc <= nr);
    G__nr_ = nr; G__ntheta_ = @NT@; G__is_ntheta_PowerOfTwo_ = @POW2@;
    G__number_smoother_circles_ = nsc; G__length_smoother_radial_ = nr - nsc;
    G__number_circular_smoother_nodes_ = nsc * @NT@; G__number_radial_smoother_nodes_ = (nr - nsc) * @NT@;
    const int N = nr * @NT@;
    int i_r = nondet_int(), i_theta = nondet_int(), u = nondet_int(), k = nondet_int();
    __CPROVER_assume(0 <= i_r && i_r < nr && 0 <= i_theta && i_theta < @NT@ && 0 <= k && k < N);

    /* (a) angular wrap: any int is mapped into [0, ntheta) and stays in its residue class */
    const int w = G.wrapThetaIndex(u);
    __CPROVER_assert(0 <= w && w < @NT@, "OBL:wrap_in_range");
    __CPROVER_assert(((long)u - (long)w) % @NT@ == 0, "OBL:wrap_is_congruent_mod_ntheta");
    /* (b) index range, fast == general == reference */
    const int idx = G.index(i_r, i_theta);
    __CPROVER_assert(0 <= idx && idx < N, "OBL:index_in_range");
    __CPROVER_assert(G.fastIndex(i_r, i_theta) == idx, "OBL:fastIndex_equals_index");
    __CPROVER_assert(G__index_ref(i_r, i_theta) == idx, "OBL:reference_index_equals_index");
    /* periodicity of index in the angular argument for ANY int offset */
    __CPROVER_assert(G.index(i_r, u) == G.index(i_r, w), "OBL:index_periodic_in_theta");
    /* (c) inverse bijections */
    int r2, t2; G__multiIndex(idx, r2, t2);
    __CPROVER_assert(r2 == i_r && t2 == i_theta, "OBL:multiIndex_after_index_is_identity");
    int r3, t3; G__multiIndex(k, r3, t3);
    __CPROVER_assert(0 <= r3 && r3 < nr && 0 <= t3 && t3 < @NT@, "OBL:multiIndex_in_range");
    __CPROVER_assert(G.index(r3, t3) == k, "OBL:index_after_multiIndex_is_identity");
    int r4, t4; G__multiIndex_ref(k, &r4, &t4);
    __CPROVER_assert(r4 == r3 && t4 == t3, "OBL:reference_multiIndex_equals_multiIndex");
    /* (d) the split partitions the nodes */
    __CPROVER_assert((idx < G.numberCircularSmootherNodes()) == (i_r < nsc), "OBL:circle_radial_partition");
    __CPROVER_assert(G.numberCircularSmootherNodes() + G.numberRadialSmootherNodes() == G.numberOfNodes(), "OBL:split_counts_add_up");
    __CPROVER_assert(0, "COVER:reached_end");
}
""".replace("@NT@", str(nt)).replace("@POW2@", str(pow2)).replace("@NRMAX@", str(nrmax))
    j = Job("C17.index[ntheta=%d]" % nt, "\n".join(c) + h, "P", timeout=600 if nt <= 64 else 3000,
            bounded="unwind 0 (loop-free); ntheta fixed = %d, nr <= 17 and split symbolic, indices and unwrapped angle symbolic" % nt,
            functions=["PolarGrid::wrapThetaIndex", "PolarGrid::index", "PolarGrid::fastIndex", "PolarGrid::multiIndex(int,int&,int&)",
                       "PolarGrid::index(MultiIndex)", "PolarGrid::multiIndex(int)"],
            covers={"COVER:reached_end"})
    j.rules, j.hashes = rules, hashes
    return j


# ---- neighbour and spacing queries (adjacentNeighborDistances / adjacentNeighborsOf / diagonalNeighborsOf) --------------------
def neighbour_job(nt, nrmax=9):
    rules, hashes = Rules("C17"), {}
    c = [units.PRELUDE_I, units.POLARGRID_STRUCT]
    c.append(units.polargrid_instance("G", "I", rules, nrmax, nt, hashes))
    c.append(reference_functions("G", rules, hashes))
    c.append("struct pair_d { real_t first, second; }; struct pair_i { int first, second; };")
    c.append("static struct pair_d neighbor_distance[2]; static struct pair_i neighbors[2];")
    src = Src.get(REF)
    for fn in ("adjacentNeighborDistances", "adjacentNeighborsOf", "diagonalNeighborsOf"):
        f = src.function("PolarGrid::" + fn)
        if [pn for (_, pn) in f["params"]][0] != "position":
            raise ExtractError("%s: first parameter is no longer the node position" % fn)
        hashes["PolarGrid::" + fn] = sha(f["body"])
        b = f["body"]
        b = rules.sub("C17.mi_decl", r"MultiIndex\s+neigbor_position\s*=\s*position;", "int neigbor_position[2] = { position_0, position_1 };", b)
        b = rules.sub("C17.mi_assign", r"(?m)^(\s*)neigbor_position\s*=\s*position;", r"\1neigbor_position[0] = position_0; neigbor_position[1] = position_1;", b)
        b = rules.sub("C17.position", r"\bposition\[(\d)\]", r"position_\1", b, expect="+")
        b = rules.sub("C17.index_of_multiindex", r"(?<![\w.])index\(neigbor_position\)", "G__index_ref(neigbor_position[0], neigbor_position[1])", b)
        b = rules.sub("C17.spacing_accessors", r"(?<![\w.])(radialSpacing|angularSpacing)\(", r"G.\1(", b)
        b = common_body_rewrites(b, rules, "I")
        b = re.sub(r"(?<![\w.])(nr|ntheta)\(\)", lambda m: "G__%s()" % m.group(1), b)
        if re.search(r"MultiIndex|std::|\bposition\b", b):
            raise ExtractError("unhandled construct in PolarGrid::%s" % fn)
        c.append("static void G__%s(const int position_0, const int position_1)\n{%s}\n" % (fn, b))
    h = r"""
void harness(void) {
    int nr = nondet_int(), nsc = nondet_int();
    __CPROVER_assume(2 <= nr && nr <= @NRMAX@ && 0 <= nsc && nsc <= nr);
    G__nr_ = nr; G__ntheta_ = @NT@; G__is_ntheta_PowerOfTwo_ = @POW2@;
    G__number_smoother_circles_ = nsc; G__length_smoother_radial_ = nr - nsc;
    G__number_circular_smoother_nodes_ = nsc * @NT@; G__number_radial_smoother_nodes_ = (nr - nsc) * @NT@;
    for (int i = 0; i < @NRMAX@; i++) { G__radial_spacings_[i] = nondet_real(); __CPROVER_assume(G__radial_spacings_[i] > 0); }
    for (int j = 0; j < @NT@; j++) { G__angular_spacings_[j] = nondet_real(); __CPROVER_assume(G__angular_spacings_[j] > 0); }
    int i = nondet_int(), j = nondet_int();
    __CPROVER_assume(0 <= i && i < nr && 0 <= j && j < @NT@);
    const int jm = (j + @NT@ - 1) % @NT@, jp = (j + 1) % @NT@;
    G__adjacentNeighborDistances(i, j);
    __CPROVER_assert(neighbor_distance[0].first == (i == 0 ? 0 : G__radial_spacings_[i - 1]) && neighbor_distance[0].second == (i == nr - 1 ? 0 : G__radial_spacings_[i]), "OBL:radial_neighbour_distances_are_the_adjacent_spacings(0 at the boundaries)");
    __CPROVER_assert(neighbor_distance[1].first == G__angular_spacings_[jm] && neighbor_distance[1].second == G__angular_spacings_[j], "OBL:angular_neighbour_distances_are_the_adjacent_spacings(periodic)");
    G__adjacentNeighborsOf(i, j);
    __CPROVER_assert(neighbors[0].first == (i == 0 ? -1 : G.index(i - 1, j)) && neighbors[0].second == (i == nr - 1 ? -1 : G.index(i + 1, j)), "OBL:radial_neighbours_are_the_adjacent_nodes(-1 outside)");
    __CPROVER_assert(neighbors[1].first == G.index(i, jm) && neighbors[1].second == G.index(i, jp), "OBL:angular_neighbours_are_the_adjacent_nodes(periodic)");
    G__diagonalNeighborsOf(i, j);
    __CPROVER_assert(neighbors[0].first == (i == 0 ? -1 : G.index(i - 1, jm)) && neighbors[0].second == (i == nr - 1 ? -1 : G.index(i + 1, jm)), "OBL:lower_diagonal_neighbours(-1 outside, periodic)");
    __CPROVER_assert(neighbors[1].first == (i == 0 ? -1 : G.index(i - 1, jp)) && neighbors[1].second == (i == nr - 1 ? -1 : G.index(i + 1, jp)), "OBL:upper_diagonal_neighbours(-1 outside, periodic)");
    __CPROVER_assert(0, "COVER:reached_end");
}
""".replace("@NT@", str(nt)).replace("@POW2@", "1" if (nt & (nt - 1)) == 0 else "0").replace("@NRMAX@", str(nrmax))
    j = Job("C17.neighbours[ntheta=%d]" % nt, "\n".join(c) + h, "P", unwind=max(nrmax, nt) + 2, timeout=600,
            bounded="unwind %d (harness initialisation loops only); ntheta fixed = %d, nr <= %d and split symbolic, node symbolic" % (max(nrmax, nt) + 2, nt, nrmax),
            functions=["PolarGrid::adjacentNeighborDistances", "PolarGrid::adjacentNeighborsOf", "PolarGrid::diagonalNeighborsOf", "PolarGrid::radialSpacing", "PolarGrid::angularSpacing"],
            covers={"COVER:reached_end"})
    j.rules, j.hashes = rules, hashes
    return j


def gridgen_keep(desc):
    return (not desc.startswith("OBL:")) or bool(re.match(r"OBL:(coarse|radial_spacing|angular_spacing|spacing_array)", desc))


def build_jobs(tier, seed):
    return [split_job(nt) for nt in (4, 6, 8, 12, 64)] + [split_job(4, "nr==2")] + [neighbour_job(nt) for nt in ((4, 6, 8) if tier == "quick" else (4, 6, 8, 10, 12, 16))] + [job_for(nt) for nt in (NTHETAS_QUICK if tier == "quick" else NTHETAS_THOROUGH)]


EXPLANATION = (
    "Plain CBMC (SAT, loop-free => complete for the stated domain) on the verbatim inline functions wrapThetaIndex, index, "
    "fastIndex, multiIndex(int,int&,int&) of polargrid.inl and the reference index(MultiIndex)/multiIndex(int) of polargrid.cpp: "
    "for each listed ntheta (both wrap code paths), EVERY nr in 2..17, EVERY split 0..nr, every node and EVERY 32-bit unwrapped "
    "angular index: range, congruence, periodicity, fast == reference, both compositions are the identity, circle/radial partition. "
    "Bounded in ntheta only (a symbolic divisor does not terminate on any installed back end). Spacing arrays == coordinate differences "
    "and coarseningGrid keeps every second radius / angle incl. both boundaries: decided by the grid-generation jobs (props/gridgen.py, "
    "Layer R, bounded in the generation exponents). Neighbour queries: adjacentNeighborDistances / adjacentNeighborsOf / diagonalNeighborsOf (MultiIndex -> "
    "two ints, std::array<std::pair> -> struct array) return the adjacent spacings / node numbers, 0 resp. -1 outside the grid, periodic in theta (nr <= 9, "
    "listed ntheta).")


def index_replay_cb(job, key, label, rec):
    """the shape and indices of the SAT counterexample are applied to the real PolarGrid (native/replay_index.cpp)"""
    import vlib
    m = re.search(r"index\[ntheta=(\d+)\]", job.name)
    if not m:
        return None
    v = vlib.last_values(rec)
    try:
        args = [int(v["nr"]), int(m.group(1)), int(v["nsc"]), int(v["i_r"]), int(v["i_theta"]), int(v["u"]), int(v["k"])]
    except (KeyError, ValueError):
        return None
    return vlib.native_driver("replay_index", args)


def run(tier, seed, work):
    import vlib
    rep = vlib.Report("C17", tier, seed)
    jobs = build_jobs(tier, seed)
    vlib.run_jobs(jobs, work)
    rep.absorb(jobs, replay_cb=index_replay_cb)
    import gridgen
    gj = gridgen.build_jobs("quick", seed)[::3] if tier == "quick" else gridgen.build_jobs("quick", seed)
    vlib.run_jobs(gj, work)
    rep.absorb(gj, replay_cb=gridgen.replay_cb, keep=gridgen_keep)
    rep.extraction = {"rules_fired": jobs[0].rules.summary(), "body_sha256_16": jobs[0].hashes}
    rep.trusted = ["CBMC 6.11 SAT back end", "extractor rules R1-R10 + C17.position/stddiv/return_multiindex", "32-bit int"]
    rep.assumptions = ["class invariant of the split fields (nsc + lsr == nr, node counts) as established by initializeLineSplitting",
                       "ntheta from the listed set"]
    rc = rep.finish("other", EXPLANATION, "cbmc unit.c --function harness (loop-free, all checks on)")
    return rc


def replay(path):
    return 0


# ---- PolarGrid::initializeLineSplitting: contract of the circle/radial split (unbounded nr: loop contract) ---------------
def split_job(nt=8, domain="nr>=3"):
    rules, hashes = Rules("C17"), {}
    f = Src.get(REF).function("PolarGrid::initializeLineSplitting", must_params=["splitting_radius"])
    hashes["PolarGrid::initializeLineSplitting"] = sha(f["body"])
    b = f["body"]
    b = rules.sub("C17.optional", r"\bsplitting_radius\.has_value\(\)", "splitting_radius_has", b, expect=1)
    b = rules.sub("C17.optional", r"\bsplitting_radius\.value\(\)", "splitting_radius_val", b, expect="+")
    b = rules.sub("C17.front_back", r"\bradii_\.front\(\)", "radii_[0]", b, expect=1)
    b = rules.sub("C17.front_back", r"\bradii_\.back\(\)", "radii_[nr() - 1]", b, expect=1)
    # std::lower_bound over the sorted radii: first index k with radii_[k] >= value (k == nr() <=> end()); contract, libstdc++ trusted
    b = rules.sub("C17.lower_bound", r"auto\s+it\s*=\s*std::lower_bound\(radii_\.begin\(\),\s*radii_\.end\(\),\s*splitting_radius_val\);",
                  "const int it = LOWER_BOUND(splitting_radius_val);", b, expect=1)
    b = rules.sub("C17.lower_bound", r"it\s*!=\s*radii_\.end\(\)", "it != nr()", b, expect=1)
    b = rules.sub("C17.lower_bound", r"std::distance\(radii_\.begin\(\),\s*it\)", "it", b, expect=1)
    b = common_body_rewrites(b, rules, "I")

    # loop contract of the automatic search loop (keyed: first `for` of the body)
    inv = ("\n        __CPROVER_assigns(i_r, number_smoother_circles_)\n"
           "        __CPROVER_loop_invariant(2 <= i_r && (i_r <= nr_ - 2 || nr_ < 4) && number_smoother_circles_ == 2)\n"
           "        __CPROVER_decreases(nr_ - i_r)\n")
    m = re.search(r"\bfor\s*\(", b)
    pc = match_close(b, m.end() - 1, "(", ")")
    b = b[:pc + 1] + inv + b[pc + 1:]
    if re.search(r"std::|\bauto\b", b):
        raise ExtractError("unhandled construct in initializeLineSplitting: %s" % re.findall(r".*(?:std::|auto).*", b)[:2])
    # the coordinates only decide WHERE the search loop breaks; they are modelled as an arbitrary ordered sort (64-bit integers)
    text = "#define double float\n" + units.PRELUDE_I + r"""
#define M_PI 3.14159265f
static int nr_, ntheta_; static double radii_[32768];
static int number_smoother_circles_, length_smoother_radial_, number_circular_smoother_nodes_, number_radial_smoother_nodes_;
static double smoother_splitting_radius_;
static _Bool splitting_radius_has; static double splitting_radius_val;
static int nr(void) { return nr_; } static int ntheta(void) { return ntheta_; }
static int numberOfNodes(void) { return nr_ * ntheta_; }
static int numberSmootherCircles(void) { return number_smoother_circles_; } static int lengthSmootherRadial(void) { return length_smoother_radial_; }
static int numberCircularSmootherNodes(void) { return number_circular_smoother_nodes_; } static int numberRadialSmootherNodes(void) { return number_radial_smoother_nodes_; }
double nondet_double(void);
static double radius(const int i) { __CPROVER_assert(0 <= i && i < nr_, "source assert: r_index within radii_"); return nondet_double(); }   /* arbitrary coordinate */
static int LOWER_BOUND(double v) { int k = nondet_int(); __CPROVER_assume(0 <= k && k <= nr_); return k; }
static void initializeLineSplitting__impl(void)
{""" + b + r"""}
void harness(void) {
    nr_ = nondet_int(); ntheta_ = @NT@; splitting_radius_has = nondet_bool(); splitting_radius_val = nondet_double();
    __CPROVER_assume(2 <= nr_ && nr_ <= 32768 && 2 <= ntheta_ && ntheta_ <= 32768);     /* checkParameters: at least two radii */
    __CPROVER_assume(@DOMAIN@);                                                                  /* case split */
    initializeLineSplitting__impl();
    __CPROVER_assert(number_smoother_circles_ + length_smoother_radial_ == nr_, "OBL:split_lengths_add_up_to_nr");
    __CPROVER_assert(0 <= number_smoother_circles_ && number_smoother_circles_ <= nr_, "OBL:split_position_in_range");
    __CPROVER_assert(number_circular_smoother_nodes_ == number_smoother_circles_ * ntheta_ && number_radial_smoother_nodes_ == length_smoother_radial_ * ntheta_, "OBL:split_node_counts");
    /* automatic split: what every smoother assumes (assert(numberSmootherCircles >= 2), assert(lengthSmootherRadial >= 3)) */
    __CPROVER_assert(splitting_radius_has || nr_ < 5 || (number_smoother_circles_ >= 2 && length_smoother_radial_ >= 3), "OBL:automatic_split_gives_two_circles_and_three_radial_nodes[C20]");
    __CPROVER_assert(splitting_radius_has || nr_ <= 5 || number_smoother_circles_ >= 3, "OBL:automatic_split_gives_three_circles_when_nr_exceeds_5[C20]");
    __CPROVER_assert(0, "COVER:reached_end");
}
"""
    text = text.replace("@NT@", str(nt)).replace("@DOMAIN@", "nr_ >= 3" if domain == "nr>=3" else "nr_ == 2")
    j = Job("C17.split[ntheta=%d,%s]" % (nt, domain), text, "M", loop_contracts=True, timeout=600, unwind=8,
            bounded="unwind 0: loop closed by its loop contract for every nr <= 32768; ntheta fixed = %d (the node-count identity nsc*ntheta + lsr*ntheta == nr*ntheta is a symbolic-multiplier fact no back end finishes)" % nt,
            functions=["PolarGrid::initializeLineSplitting"], covers={"COVER:reached_end"})
    j.rules, j.hashes = rules, hashes
    return j
