"""C03 -- one discrete operator: give == take, cached == uncached, coarse caches == fresh evaluation,
Dirichlet rows are identity rows, constants are mapped to the mass term.  Layer R."""
import re
from vlib import Src, Rules, Job, common_body_rewrites, fn_to_macro, sha, ExtractError
import units

GIVE = [("src/Residual/ResidualGive/applyAGive.cpp", "applyCircleSection"),
        ("src/Residual/ResidualGive/applyAGive.cpp", "applyRadialSection"),
        ("src/Residual/ResidualGive/residualGive.cpp", "computeResidual")]
TAKE = [("src/Residual/ResidualTake/applyResidualTake.cpp", "applyCircleSection"),
        ("src/Residual/ResidualTake/applyResidualTake.cpp", "applyRadialSection"),
        ("src/Residual/ResidualTake/residualTake.cpp", "computeResidual")]


def residual_unit(rules, hashes, nr, nt, layer="R"):
    N = nr * nt
    c = [units.PRELUDE_R, units.VCHK, units.POLARGRID_STRUCT, units.PROVIDERS, units.OPERATOR_PRELUDE]
    c.append(units.polargrid_instance("grid_", layer, rules, nr, nt, hashes))
    c.append(units.jacobian_macro(rules, layer, hashes))
    c.append(units.levelcache_instance("level_cache_", layer, rules, N, nr, nt, hashes))
    c.append("static real_t result[%d], rhs[%d], x[%d]; static int result_size, rhs_size, x_size;" % (N, N, N))
    for rel, mac in (("src/Residual/ResidualGive/applyAGive.cpp", "NODE_APPLY_A_GIVE"),
                     ("src/Residual/ResidualTake/applyResidualTake.cpp", "NODE_APPLY_RESIDUAL_TAKE")):
        mt = Src.get(rel).macro(mac)
        hashes[mac] = sha(mt)
        c.append(common_body_rewrites(mt, rules, layer))
    for cls, meths in (("ResidualGive", GIVE), ("ResidualTake", TAKE)):
        text, _ = units.emit_class_methods(cls, meths, rules, layer, hashes, vec_names=("result", "rhs", "x"))
        c.append(text)
    return c


def cache_setup(N, nr, nt, cd=1, cg=1):
    t = ["  level_cache___cache_density_profile_coefficients_ = %d; level_cache___cache_domain_geometry_ = %d;" % (cd, cg)]
    for v, k in units.LC_VECS.items():
        size = {"t": nt, "r": nr, "n": N}[k]
        t.append("  level_cache___%s_size = %d;" % (v, size))
        t += ["  level_cache___%s[%d] = nondet_real();" % (v, i) for i in range(size)]
    return t


def shapes(tier):
    fam = [(5, 4, 2), (6, 6, 3), (5, 8, 0), (6, 4, 6)]
    if tier != "quick":
        # a wider family (every branch class again on other sizes: no circles / only circles / odd and even splits, ntheta mod 3 and 4);
        # the exhaustive sweep over all splits that was planned first needs many hours and was dropped
        fam += [(5, 6, 1), (6, 8, 3), (7, 4, 4), (8, 4, 2), (5, 12, 2), (7, 6, 7), (6, 6, 0), (8, 8, 5), (5, 10, 3), (7, 8, 1)]
    return fam


def build_jobs(tier, seed):
    jobs = []
    for (nr, nt, nsc) in shapes(tier):
        for dirbc in (0, 1):
            jobs += jobs_for(nr, nt, nsc, dirbc)
    for (nr, nt, nsc, nsc_c) in ([(5, 4, 2, 1), (7, 6, 4, 2)] if tier == "quick" else [(5, 4, 2, 1), (7, 6, 4, 2), (5, 8, 0, 0), (7, 4, 7, 4), (9, 4, 3, 1)]):
        jobs += cache_jobs(nr, nt, nsc, nsc_c)
    return jobs


def jobs_for(nr, nt, nsc, dirbc):
    rules, hashes = Rules("C03"), {}
    N = nr * nt
    c = residual_unit(rules, hashes, nr, nt)
    c.append("static real_t RG[%d], RGP[%d], RT[%d], X0[%d], F0[%d];" % (N, N, N, N, N))
    c.append("static void setup(void) {")
    c.append(units.grid_setup_concrete("grid_", nr, nt, nsc, antipodal=True))
    c += cache_setup(N, nr, nt)
    c.append("  DirBC_Interior_ = %d; result_size = rhs_size = x_size = %d;" % (dirbc, N))
    c.append("}")
    tag = "[nr=%d,nt=%d,nsc=%d,DirBC=%d]" % (nr, nt, nsc, dirbc)
    bound = "grid shape fixed %dx%d split %d DirBC=%d; spacings, coefficient arrays, rhs and x symbolic reals" % (nr, nt, nsc, dirbc)
    fns = ["ResidualGive::computeResidual", "ResidualGive::applyCircleSection", "ResidualGive::applyRadialSection",
           "NODE_APPLY_A_GIVE", "ResidualTake::computeResidual", "ResidualTake::applyCircleSection",
           "ResidualTake::applyRadialSection", "NODE_APPLY_RESIDUAL_TAKE", "LevelCache::obtainValues",
           "PolarGrid::index", "PolarGrid::wrapThetaIndex"]
    h = ["void harness(void) {", "  setup();"]
    h += ["  X0[%d] = nondet_real(); F0[%d] = nondet_real();" % (k, k) for k in range(N)]

    def call(fn, threads, dst):
        t = ["  verif_omp_max_threads = %d;" % threads]
        t += ["  x[%d] = X0[%d]; rhs[%d] = F0[%d]; result[%d] = nondet_real();" % (k, k, k, k, k) for k in range(N)]
        t.append("  %s__impl();" % fn)
        t += ["  %s[%d] = result[%d];" % (dst, k, k) for k in range(N)]
        return t

    h += call("ResidualGive_computeResidual", 1, "RG")
    h += call("ResidualGive_computeResidual", 4, "RGP")
    h += call("ResidualTake_computeResidual", 1, "RT")
    for i in range(nr):
        for j in range(nt):
            k = "grid_.index(%d,%d)" % (i, j)
            h.append("  __CPROVER_assert(RG[%s] == RT[%s], \"OBL:give_eq_take[node=(%d,%d)]\");" % (k, k, i, j))
            h.append("  __CPROVER_assert(RGP[%s] == RT[%s], \"OBL:give_parallel_branch_eq_take[node=(%d,%d)]\");" % (k, k, i, j))
            if i == nr - 1 or (i == 0 and dirbc):
                h.append("  __CPROVER_assert(RT[%s] == F0[%s] - X0[%s], \"OBL:dirichlet_row_is_identity[node=(%d,%d)]\");" % (k, k, k, i, j))
    h.append("  __CPROVER_assert(X0[0] != X0[0], \"COVER:reached_end\");")
    h.append("}")
    job = Job("C03.A" + tag, "\n".join(c + h), "R", unwind=N + 2, timeout=600, split=r"^OBL:", split_chunk=6, split_timeout=120, bounded=bound, functions=fns,
              covers={"COVER:reached_end"}, extra=["--max-field-sensitivity-array-size", "4096"])
    job.rules, job.hashes = rules, hashes
    return [job]


def cache_jobs(nr, nt, nsc, nsc_c):
    """B: LevelCache(grid, ...) followed by obtainValues delivers, under each of the four cache-flag combinations,
    the fresh evaluation at the node; C: LevelCache(previous_level, coarse grid) followed by obtainValues on the
    coarse level delivers the fresh evaluation at the coarse node (its radius/angle are the fine ones at 2i/2j)."""
    rules, hashes = Rules("C03"), {}
    ncr, nct = (nr + 1) // 2, nt // 2
    N, NC = nr * nt, ncr * nct
    c = [units.PRELUDE_R, units.VCHK, units.POLARGRID_STRUCT, units.PROVIDERS, units.OPERATOR_PRELUDE]
    c.append(units.polargrid_instance("fineGrid", "R", rules, nr, nt, hashes))
    c.append(units.polargrid_instance("coarseGrid", "R", rules, ncr, nct, hashes))
    c.append(units.jacobian_macro(rules, "R", hashes))
    c.append(units.levelcache_instance("LCF", "R", rules, N, nr, nt, hashes))
    c.append(units.levelcache_instance("LCC", "R", rules, NC, ncr, nct, hashes))
    t, ctor1 = units.levelcache_ctor("LCF", 0, rules, "R", hashes, "fineGrid")
    c.append(t)
    t, ctor2 = units.levelcache_ctor("LCC", 1, rules, "R", hashes, "coarseGrid", prev="LCF", prev_grid="fineGrid")
    c.append(t)
    c.append("static void setup(void) {")
    c.append(units.grid_setup_concrete("fineGrid", nr, nt, nsc, antipodal=True))
    # coarse grid = every second node (contract of coarseningGrid, C17); its own split is free
    c.append(units.grid_setup_concrete("coarseGrid", ncr, nct, nsc_c))
    for i in range(ncr):
        c.append("  coarseGrid__radii_[%d] = fineGrid__radii_[%d];" % (i, 2 * i))
    for j in range(nct + 1):
        c.append("  coarseGrid__angles_[%d] = fineGrid__angles_[%d];" % (j, 2 * j))
    c.append("}")
    fns = ["LevelCache::LevelCache(grid,...)", "LevelCache::LevelCache(previous_level, grid)", "LevelCache::obtainValues",
           "compute_jacobian_elements", "PolarGrid::index"]
    jobs = []
    for cd in (0, 1):
        for cg in (0, 1):
            h = ["void harness(void) {", "  setup();", "  %s(%d, %d);" % (ctor1, cd, cg), "  %s();" % ctor2]
            for (lc, g, rr, tt, lab) in (("LCF", "fineGrid", nr, nt, "cached_eq_uncached"), ("LCC", "coarseGrid", ncr, nct, "coarse_cache_eq_fresh")):
                for i in range(rr):
                    for j in range(tt):
                        h.append("  { const real_t r = %s.radius(%d); const real_t theta = %s.theta(%d);" % (g, i, g, j))
                        h.append("    const real_t s0 = sin(theta), c0 = cos(theta), al0 = prov_alpha(r), be0 = prov_beta(r);")
                        h.append("    real_t arr0, att0, art0, det0; compute_jacobian_elements(%s__domain_geometry_, r, theta, s0, c0, al0, arr0, att0, art0, det0);" % lc)
                        h.append("    real_t sin_theta, cos_theta, coeff_beta, arr, att, art, detDF; const int gi = %s.index(%d, %d);" % (g, i, j))
                        h.append("    %s__obtainValues(%d, %d, gi, r, theta, sin_theta, cos_theta, coeff_beta, arr, att, art, detDF);" % (lc, i, j))
                        h.append("    __CPROVER_assert(sin_theta == s0 && cos_theta == c0 && coeff_beta == be0 && arr == arr0 && att == att0 && art == art0 && detDF == det0, "
                                 "\"OBL:%s[node=(%d,%d)]\"); }" % (lab, i, j))
            h.append("  __CPROVER_assert(LCF__sin_theta_[0] != LCF__sin_theta_[0], \"COVER:reached_end\");")
            h.append("}")
            tag = "[nr=%d,nt=%d,nsc=%d,nscC=%d,cacheProfile=%d,cacheGeometry=%d]" % (nr, nt, nsc, nsc_c, cd, cg)
            j = Job("C03.B" + tag, "\n".join(c + h), "R", unwind=max(nr, nt) + 2, timeout=600, split=r"^OBL:", split_chunk=4, split_timeout=200,
                    bounded="grid shape fixed (fine %dx%d split %d, coarse split %d); radii, angles symbolic; geometry/profile functions uninterpreted" % (nr, nt, nsc, nsc_c),
                    functions=fns, covers={"COVER:reached_end"}, extra=["--max-field-sensitivity-array-size", "4096"])
            j.rules, j.hashes = rules, hashes
            jobs.append(j)
    return jobs


EXPLANATION = "C03 (work in progress)"


def run(tier, seed, work):
    import vlib
    rep = vlib.Report("C03", tier, seed)
    jobs = build_jobs(tier, seed)
    vlib.run_jobs(jobs, work)
    rep.absorb(jobs, replay_cb=vlib.ops_replay_cb("givetake"))
    rep.extraction = {"rules_fired": jobs[0].rules.summary(), "body_sha256_16": jobs[0].hashes}
    return rep.finish("other", EXPLANATION, "cbmc unit.c --function harness --z3 --unwind N --unwinding-assertions")
