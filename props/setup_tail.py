"""GMGPolar::setup(), second half (after the levels exist): interpolation object, right-hand sides on the levels, per-level operators.

Token abstraction (as in Layer T): a level is its index, `levels_[l].initializeX(args)` records that operator X exists on level l
and whether it was built with the solver's own providers / flags and the LEVEL'S thread count; the right-hand side of a level is
the pair (number of injections applied to the continuous rhs, discretised yes/no).  Contract, for every number of levels 2..8,
every extrapolation mode (also invalid integers: the `default` branch) and FMG on/off:
  * every level but the coarsest has a smoother, the finest also an extrapolated smoother exactly when the mode needs one, the
    coarsest a direct solver, every level a residual operator -- what solve() and the cycles call;
  * full_grid_smoothing_ == (extrapolation != IMPLICIT_EXTRAPOLATION) for valid modes -- the precondition the solve() contract
    ASSUMED before this job existed;
  * the rhs is injected BEFORE it is discretised, level l < k ends with (l injections, discretised), k = all levels with FMG,
    1 without extrapolation, 2 otherwise; no level's rhs is discretised twice.
Plain CBMC, loops bounded by the level count (unwind 10 with unwinding assertions: complete for <= 8 levels)."""
import re
from vlib import Src, Rules, Job, ExtractError, common_body_rewrites, sha
import layert
import parser as optparser

MAXL = 8
OPS = ["Smoothing", "ExtrapolatedSmoothing", "DirectSolver", "Residual"]
WANT_ARGS = "*domain_geometry_, *density_profile_coefficients_, DirBC_Interior_, threads_per_level_[level_depth], stencil_distribution_method_"


def job():
    rules, hashes = Rules("setup"), {}
    f = Src.get("src/GMGPolar/setup.cpp").function("GMGPolar::setup")
    b = f["body"]
    a = b.find("interpolation_ = std::make_unique<Interpolation>")
    if a < 0:
        raise ExtractError("setup(): construction of the interpolation object not found")
    b = b[a:]
    hashes["GMGPolar::setup (from the interpolation object to the end)"] = sha(b)
    b = layert.drop_verbose_blocks(b, rules)
    b = rules.sub("T1.likwid", r"^\s*LIKWID_(START|STOP)\([^;]*\);\s*$", "", b, flags=re.M)
    b = rules.sub("T1.chrono", r"^\s*auto\s+(start|end)_\w+\s*=\s*std::chrono::high_resolution_clock::now\(\);\s*$", "", b, flags=re.M)
    b = layert.join_statements(b)
    b = rules.sub("T1.timing_acc", r"^\s*t_\w+\s*\+=\s*std::chrono::duration<double>\([^;]*\)\.count\(\);\s*$", "", b, flags=re.M)
    b = rules.sub("S.interpolation", r"interpolation_\s*=\s*std::make_unique<Interpolation>\(threads_per_level_,\s*DirBC_Interior_\);", "has_interpolation = 1;", b, expect=1)
    b = rules.sub("S.build_rhs", r"build_rhs_f\(levels_\[0\],\s*levels_\[0\]\.rhs\(\)\);", "RHS_BUILD(0);", b, expect=1)
    b = rules.sub("T2.level_alias", r"Level\s*&\s*(\w+)\s*=\s*levels_\[([^\]]+)\]\s*;", r"const int \1 = \2;", b, expect=2)
    b = rules.sub("S.injection", r"\binjection\(level_depth,\s*next_level\.rhs\(\),\s*current_level\.rhs\(\)\);", "RHS_INJECT(level_depth, next_level, current_level);", b, expect=1)
    b = rules.sub("S.discretize", r"\bdiscretize_rhs_f\(current_level,\s*current_level\.rhs\(\)\);", "RHS_DISCRETIZE(current_level);", b, expect=1)
    n = [0]

    def init(m):
        n[0] += 1
        args = " ".join(m.group(2).split())
        return "INIT_OP(%s, level_depth, %d);" % (m.group(1), 1 if args == WANT_ARGS else 0)
    b = re.sub(r"levels_\[level_depth\]\.initialize(\w+)\(([^;]*)\);", init, b)
    rules.log.append(("S.initialize_operator", n[0]))
    if n[0] < 10:
        raise ExtractError("setup(): only %d operator initialisations found" % n[0])
    b = rules.sub("S.pre_increment", r"\+\+level_depth\)", "level_depth++)", b)
    b = common_body_rewrites(b, rules, "I")
    if re.search(r"std::|\blevels_|auto\b", b):
        raise ExtractError("setup tail: unhandled construct `%s`" % re.search(r"std::\w*|\blevels_\S*|auto\b", b).group(0))
    enums = optparser.enums_from_header()
    ops_enum = ", ".join("OP_%s" % o for o in OPS)
    c = ["int nondet_int(void); _Bool nondet_bool(void);", "#define MAXL %d" % MAXL,
         "enum { %s };" % ", ".join("ExtrapolationType_%s = %d" % (v, k) for v, k in enums["ExtrapolationType"]),
         "enum { %s, NOPS };" % ops_enum,
         "static _Bool has_op[NOPS][MAXL], args_ok[NOPS][MAXL], has_interpolation, full_grid_smoothing_, FMG_; static int built_twice;",
         "static int number_of_levels_, extrapolation_;",
         "static int rhs_inj[MAXL]; static _Bool rhs_set[MAXL], rhs_disc[MAXL]; static int rhs_errors;",
         "#define LV(l) (__CPROVER_assert((l) >= 0 && (l) < number_of_levels_, \"OBL:level index within the hierarchy\"), (l))",
         "#define INIT_OP(X, l, ok) do { if (has_op[OP_##X][LV(l)]) built_twice++; has_op[OP_##X][l] = 1; args_ok[OP_##X][l] = (ok); } while (0)",
         "#define RHS_BUILD(l) do { rhs_set[LV(l)] = 1; rhs_inj[l] = 0; rhs_disc[l] = 0; } while (0)",
         "#define RHS_INJECT(d, to, from) do { __CPROVER_assert((from) == (d) && (to) == (d) + 1, \"OBL:injection goes from a level to the next coarser one\"); LV(to); \\\n"
         "    __CPROVER_assert(rhs_set[from] && !rhs_disc[from], \"OBL:the rhs is injected before it is discretised\"); rhs_set[to] = 1; rhs_inj[to] = rhs_inj[from] + 1; rhs_disc[to] = 0; } while (0)",
         "#define RHS_DISCRETIZE(l) do { __CPROVER_assert(rhs_set[LV(l)] && !rhs_disc[l], \"OBL:a rhs is discretised once, after it was built or injected\"); rhs_disc[l] = 1; } while (0)",
         "static void setup_tail(void)\n{\n%s\n}\n" % b,
         "void harness(void) {",
         "  number_of_levels_ = nondet_int(); extrapolation_ = nondet_int(); FMG_ = nondet_bool();",
         "  __CPROVER_assume(2 <= number_of_levels_ && number_of_levels_ <= MAXL);   /* chooseNumberOfLevels (C18) */",
         "  const int L0 = number_of_levels_, E0 = extrapolation_; const _Bool F0 = FMG_;",
         "  setup_tail();",
         "  __CPROVER_assert(number_of_levels_ == L0 && extrapolation_ == E0 && FMG_ == F0, \"OBL:setup leaves the options and the level count it works from unchanged\");",
         "  const int L = number_of_levels_;",
         "  const _Bool valid = extrapolation_ >= 0 && extrapolation_ <= 3;",
         "  const _Bool needs_ext = extrapolation_ == ExtrapolationType_IMPLICIT_EXTRAPOLATION || extrapolation_ == ExtrapolationType_COMBINED || !valid;",
         "  const _Bool needs_std0 = extrapolation_ != ExtrapolationType_IMPLICIT_EXTRAPOLATION;",
         "  __CPROVER_assert(has_interpolation, \"OBL:the interpolation object exists\");",
         "  __CPROVER_assert(!valid || full_grid_smoothing_ == (extrapolation_ != ExtrapolationType_IMPLICIT_EXTRAPOLATION), \"OBL:full_grid_smoothing_ is what solve() assumes for the extrapolation mode\");",
         "  __CPROVER_assert(built_twice == 0, \"OBL:no operator is built twice\");",
         "  for (int l = 0; l < L; l++) {",
         "    __CPROVER_assert(has_op[OP_Residual][l], \"OBL:every level has a residual operator\");",
         "    __CPROVER_assert(has_op[OP_DirectSolver][l] == (l == L - 1), \"OBL:exactly the coarsest level has the direct solver\");",
         "    __CPROVER_assert(has_op[OP_Smoothing][l] == (l == 0 ? needs_std0 : l < L - 1), \"OBL:every smoothing level has its smoother (finest: unless only the extrapolated one is used)\");",
         "    __CPROVER_assert(has_op[OP_ExtrapolatedSmoothing][l] == (l == 0 && needs_ext), \"OBL:the finest level has the extrapolated smoother exactly when the mode uses it\");",
         "    for (int o = 0; o < NOPS; o++) __CPROVER_assert(!has_op[o][l] || args_ok[o][l], \"OBL:every operator is built from the solver's providers, flags and the thread count of ITS level\");",
         "  }",
         "  const int k = FMG_ ? L : (extrapolation_ == ExtrapolationType_NONE ? 1 : 2);",
         "  for (int l = 0; l < L; l++) {",
         "    if (l < k) __CPROVER_assert(rhs_set[l] && rhs_disc[l] && rhs_inj[l] == l, \"OBL:level l < k holds the l-fold injected rhs, discretised (k: all levels with FMG, 1 without extrapolation, else 2)\");",
         "    else __CPROVER_assert(!rhs_set[l], \"OBL:no rhs is built on levels that do not need one\");",
         "  }",
         "  __CPROVER_assert(0, \"COVER:reached_end\");", "}"]
    j = Job("setup.tail", "\n".join(c), "P", unwind=MAXL + 2, timeout=600, bounded=None,
            functions=["GMGPolar::setup (interpolation object, rhs on the levels, per-level operators)"], covers={"COVER:reached_end"})
    j.rules, j.hashes = rules, hashes
    return j


def build_jobs(tier=None, seed=None):
    return [job()]
