"""C04 -- the coarse direct solver assembles exactly the operator the residual applies (part a); the sparse LU
factorisation itself is std::unordered_map code outside CBMC's reach (part b, assumed -- see C16).

Layer R: the verbatim assembly text of DirectSolver{Take,Give}CustomLU (NODE_BUILD_SOLVER_MATRIX_* macros,
buildSolverMatrixCircleSection / RadialSection, getStencil, getStencilSize, the stencil tables of the headers, the CSR
constructor and its row accessors) is run on concrete grid shapes with symbolic real coefficients; obligation per row k and
symbolic v:   sum_off value[k][off] * v[col[k][off]] == (A v)[k]   with A v from the take residual operator, every slot of
every row written (no stale column), both strategies, both boundary modes; Give also in its 3-colour parallel task order."""
import re
from vlib import Src, Rules, Job, ExtractError, common_body_rewrites, sha, fn_to_macro
import units
import C03

STRATS = {
    "Take": dict(dir="DirectSolverTakeCustomLU", macro="NODE_BUILD_SOLVER_MATRIX_TAKE"),
    "Give": dict(dir="DirectSolverGiveCustomLU", macro="NODE_BUILD_SOLVER_MATRIX_GIVE"),
}
ENUM = ["TopLeft", "Top", "TopRight", "Left", "Center", "Right", "BottomLeft", "Bottom", "BottomRight"]


def stencil_tables(hdr_rel, rules):
    """`const Stencil name = { nine ints };` of the class header -> `static const int name[9]`; the enumerator order of
    StencilPosition is checked against include/Stencil/stencil.h and Stencil::operator[] against src/Stencil/stencil.cpp"""
    sh = Src.get("include/Stencil/stencil.h").text
    m = re.search(r"enum\s+class\s+StencilPosition\s*\{([^}]*)\}", sh)
    if [x.strip() for x in m.group(1).split(",") if x.strip()] != ENUM:
        raise ExtractError("StencilPosition enumerators changed")
    f = Src.get("src/Stencil/stencil.cpp").function("Stencil::operator[]")
    if "".join(f["body"].split()) != "returnvalues_[static_cast<int>(type)];":
        raise ExtractError("Stencil::operator[] changed")
    out = ["enum { %s };" % ", ".join("StencilPosition_%s = %d" % (e, i) for i, e in enumerate(ENUM))]
    text = Src.get(hdr_rel).text
    n = 0
    for m in re.finditer(r"(?:const\s+)?Stencil\s+(\w+)\s*=\s*\{([^}]*)\}\s*;", text):
        vals = [v.strip() for v in m.group(2).split(",") if v.strip()]
        if len(vals) != 9:
            raise ExtractError("stencil %s does not have 9 entries" % m.group(1))
        out.append("static const int %s[9] = { %s };" % (m.group(1), ", ".join(vals)))
        n += 1
    rules.log.append(("C04.stencil_tables", n))
    if n == 0:
        raise ExtractError("no stencil tables in " + hdr_rel)
    return "\n".join(out)


CSR_PRELUDE = r"""
/* SparseMatrixCSR<double> solver_matrix: members as in include/LinearAlgebra/csr_matrix.h; the reference-returning row
   accessors become lvalue macros that carry their two asserts (text checked against the header on every run) */
struct CSR { int rows_, columns_, nnz_; real_t values_[CSR_MAXNNZ]; int column_indices_[CSR_MAXNNZ]; int row_start_indices_[CSR_MAXROWS + 1]; };
static struct CSR solver_matrix;
#define CSR_SLOT(m, row, nz) (__CPROVER_assert((row) >= 0 && (row) < (m).rows_, "source assert: row >= 0 && row < rows_"), \
    __CPROVER_assert((nz) >= 0 && (nz) < (m).row_start_indices_[(row) + 1] - (m).row_start_indices_[(row)], "source assert: nz_index >= 0 && nz_index < row_nz_size(row)"), \
    (m).row_start_indices_[(row)] + (nz))
#define CSR_row_nz_index(m, row, nz) (m).column_indices_[CSR_SLOT(m, row, nz)]
#define CSR_row_nz_entry(m, row, nz) (m).values_[CSR_SLOT(m, row, nz)]
#define VERIF_THROW(what) __CPROVER_assert(0, "OBL:throw unreachable: " what)
"""


def check_csr_accessors():
    src = Src.get("include/LinearAlgebra/csr_matrix.h")
    want = {"row_nz_index": "assert(row>=0&&row<rows_);assert(nz_index>=0&&nz_index<row_nz_size(row));returncolumn_indices_[row_start_indices_[row]+nz_index];",
            "row_nz_entry": "assert(row>=0&&row<rows_);assert(nz_index>=0&&nz_index<row_nz_size(row));returnvalues_[row_start_indices_[row]+nz_index];",
            "row_nz_size": "assert(row>=0&&row<rows_);returnrow_start_indices_[row+1]-row_start_indices_[row];"}
    for name, w in want.items():
        for occ in range(2 if name != "row_nz_size" else 1):
            f = src.function("SparseMatrixCSR<T>::" + name, occurrence=occ)
            if "".join(f["body"].split()) != w:
                raise ExtractError("SparseMatrixCSR::%s changed" % name)


def solver_unit(strat, rules, hashes, nr, nt):
    info = STRATS[strat]
    N = nr * nt
    d = info["dir"]
    cls = d
    c = C03.residual_unit(rules, hashes, nr, nt)          # grid_, level_cache_, DirBC_Interior_, take/give residual operators
    check_csr_accessors()
    c.append("#define CSR_MAXNNZ %d\n#define CSR_MAXROWS %d" % (9 * N, N))
    c.append(CSR_PRELUDE)
    c.append(stencil_tables("include/DirectSolver/%s/%s.h" % (d, d[0].lower() + d[1:]), rules))
    # getStencil / getStencilSize
    ms = Src.get("src/DirectSolver/%s/matrixStencil.cpp" % d)
    f = ms.function("%s::getStencil" % cls, must_params=["i_r"])
    hashes["%s::getStencil" % cls] = sha(f["body"])
    b = common_body_rewrites(f["body"], rules, "R")
    b = rules.sub("R8.throw", r"throw\s+std::(\w+)\(([^;]*)\);", r'VERIF_THROW("\1"); return stencil_DB_;', b)
    c.append("static const int* getStencil(const int i_r)\n{%s}\n" % b)
    f = ms.function("%s::getStencilSize" % cls, must_params=["global_index"])
    hashes["%s::getStencilSize" % cls] = sha(f["body"])
    b = common_body_rewrites(f["body"], rules, "R")
    b = rules.sub("R10.multiIndex", r"grid_\.multiIndex\(", "grid___multiIndex(", b, expect=1)
    b = rules.sub("R8.throw", r"throw\s+std::(\w+)\(([^;]*)\);", r'VERIF_THROW("\1"); return 0;', b)
    c.append("static int getStencilSize(const int global_index)\n{%s}\n" % b)
    # CSR constructor (rows, columns, nz_per_row): body verbatim, nz_per_row(i) is getStencilSize(i) (the lambda of buildSolverMatrix)
    bs = Src.get("src/DirectSolver/%s/buildSolverMatrix.cpp" % d)
    fb = bs.function("%s::buildSolverMatrix" % cls)
    hashes["%s::buildSolverMatrix" % cls] = sha(fb["body"])
    if not re.search(r"nnz_per_row\s*=\s*\[&\]\(int global_index\)\s*\{\s*return getStencilSize\(global_index\);\s*\}", fb["body"]):
        raise ExtractError("buildSolverMatrix: nnz_per_row lambda changed")
    if not re.search(r"SparseMatrixCSR<double>\s+solver_matrix\(n,\s*n,\s*nnz_per_row\);", fb["body"]):
        raise ExtractError("buildSolverMatrix: CSR construction changed")
    csr = Src.get("include/LinearAlgebra/csr_matrix.h")
    fc = [csr.function("SparseMatrixCSR<T>::SparseMatrixCSR", occurrence=k) for k in range(6)]
    fc = [f for f in fc if "nz_per_row" in f["params_text"]]
    if len(fc) != 1:
        raise ExtractError("CSR(rows, columns, nz_per_row) constructor not found")
    hashes["SparseMatrixCSR(rows,columns,nz_per_row)"] = sha(fc[0]["init"] + fc[0]["body"])
    inits = dict(units.parse_init_list(fc[0]["init"]))
    if set(inits) != {"rows_", "columns_", "row_start_indices_"}:
        raise ExtractError("CSR constructor initialiser list changed: %s" % sorted(inits))
    cb = common_body_rewrites(fc[0]["body"], rules, "R")
    cb = rules.sub("C04.make_unique", r"^\s*(values_|column_indices_)\s*=\s*std::make_unique<\w+\[\]>\(nnz_\);", "", cb, expect=2, flags=re.M)
    cb = re.sub(r"\b(rows_|columns_|nnz_|row_start_indices_)\b", r"solver_matrix.\1", cb)
    c.append("static void CSR_construct(const int rows, const int columns)\n{\n    solver_matrix.rows_ = rows; solver_matrix.columns_ = columns;\n"
             "#define nz_per_row(i) getStencilSize(i)\n%s\n#undef nz_per_row\n"
             "    __CPROVER_assert(solver_matrix.nnz_ <= CSR_MAXNNZ, \"harness capacity\");\n}\n" % cb)
    # assembly macro + section functions
    mt = bs.macro("UPDATE_MATRIX_ELEMENT")
    hashes[cls + "::UPDATE_MATRIX_ELEMENT"] = sha(mt)
    mt = rules.sub("C04.csr_accessor", r"\bmatrix\.row_nz_(index|entry)\(", r"CSR_row_nz_\1(matrix, ", mt, expect=2)
    c.append(common_body_rewrites(mt, rules, "R"))
    mt = bs.macro(info["macro"])
    hashes[info["macro"]] = sha(mt)
    mt = rules.sub("C04.stencil_ref", r"const\s+Stencil\s*&\s*(\w+)\s*=\s*", r"const int* \1 = ", mt, expect="+")
    c.append(common_body_rewrites(mt, rules, "R"))
    meths = [("src/DirectSolver/%s/buildSolverMatrix.cpp" % d, "buildSolverMatrixCircleSection"),
             ("src/DirectSolver/%s/buildSolverMatrix.cpp" % d, "buildSolverMatrixRadialSection")]
    text, em = units.emit_class_methods(cls, meths, rules, "R", hashes)
    c.append(text)
    c.append("#undef UPDATE_MATRIX_ELEMENT")
    return c


def parallel_task_order(strat, rules, hashes):
    """the multi-threaded branch of buildSolverMatrix, as sequential text (pragmas removed): one admissible schedule; for Give this
    is the 3-colour task order with the ntheta % 3 remainder rule"""
    d = STRATS[strat]["dir"]
    f = Src.get("src/DirectSolver/%s/buildSolverMatrix.cpp" % d).function("%s::buildSolverMatrix" % d)
    body = f["body"]
    m = re.search(r"else\s*\{\s*/\* Multi-threaded execution \*/", Src.get("src/DirectSolver/%s/buildSolverMatrix.cpp" % d).raw)
    i = body.find("else {", body.find("omp_get_max_threads() == 1"))
    if i < 0:
        raise ExtractError("parallel branch of buildSolverMatrix not found")
    from vlib import match_close
    bo = body.index("{", i)
    bc = match_close(body, bo, "{", "}")
    par = common_body_rewrites(body[bo:bc + 1], rules, "R")
    par = re.sub(r"\bbuildSolverMatrix(Circle|Radial)Section\((\w+|\d+),\s*solver_matrix\)", r"%s_buildSolverMatrix\1Section__impl(\2)" % d, par)
    return "static void build_parallel_order(void)\n%s\n" % par


def idx(nr, nt, nsc, a, b):
    return b + nt * a if a < nsc else nsc * nt + (a - nsc) + (nr - nsc) * b


def jobs_for(strat, nr, nt, nsc, dirbc, order="sequential"):
    rules, hashes = Rules("C04"), {}
    N = nr * nt
    d = STRATS[strat]["dir"]
    c = solver_unit(strat, rules, hashes, nr, nt)
    if order == "parallel":
        c.append(parallel_task_order(strat, rules, hashes))
    c.append("static real_t V0[%d], AV[%d];" % (N, N))
    c.append("static void setup(void) {")
    c.append(units.grid_setup_concrete("grid_", nr, nt, nsc, antipodal=True))
    c += C03.cache_setup(N, nr, nt, 1, 1)
    c.append("  DirBC_Interior_ = %d; result_size = rhs_size = x_size = %d; verif_omp_max_threads = 1;" % (dirbc, N))
    c.append("}")
    h = ["void harness(void) {", "  setup();", "  CSR_construct(%d, %d);" % (N, N)]
    h.append("  for (int s = 0; s < %d; s++) { solver_matrix.column_indices_[s] = -1; solver_matrix.values_[s] = 0; }" % (9 * N))
    if order == "sequential":
        h.append("  for (int i_r = 0; i_r < grid_.numberSmootherCircles(); i_r++) %s_buildSolverMatrixCircleSection__impl(i_r);" % d)
        h.append("  for (int i_theta = 0; i_theta < grid_.ntheta(); i_theta++) %s_buildSolverMatrixRadialSection__impl(i_theta);" % d)
    else:
        h.append("  build_parallel_order();")
    # the operator: A v = -(residual with zero rhs), take strategy (give == take is C03)
    h += ["  V0[%d] = nondet_real(); x[%d] = V0[%d]; rhs[%d] = 0; result[%d] = nondet_real();" % (k, k, k, k, k) for k in range(N)]
    h.append("  ResidualTake_computeResidual__impl();")
    h += ["  AV[%d] = 0 - result[%d];" % (k, k) for k in range(N)]
    for a in range(nr):
        for b in range(nt):
            k = idx(nr, nt, nsc, a, b)
            size = 1 if (a == nr - 1 or (a == 0 and dirbc)) else (7 if (a == 0) else 9)
            h.append("  __CPROVER_assert(%d == grid_.index(%d,%d) && solver_matrix.row_start_indices_[%d + 1] - solver_matrix.row_start_indices_[%d] == %d, "
                     "\"OBL:row_size_is_the_documented_stencil_size[node=(%d,%d)]\");" % (k, a, b, k, k, size, a, b))
            terms = " + ".join("solver_matrix.values_[solver_matrix.row_start_indices_[%d] + %d] * V0[solver_matrix.column_indices_[solver_matrix.row_start_indices_[%d] + %d]]" % (k, o, k, o)
                               for o in range(size))
            cols = " && ".join("solver_matrix.column_indices_[solver_matrix.row_start_indices_[%d] + %d] >= 0" % (k, o) for o in range(size))
            h.append("  __CPROVER_assert(%s, \"OBL:every_slot_of_the_row_is_written[node=(%d,%d)]\");" % (cols, a, b))
            h.append("  __CPROVER_assert(%s == AV[%d], \"OBL:matrix_row_equals_operator_row[node=(%d,%d)]\");" % (terms, k, a, b))
    h.append("  __CPROVER_assert(V0[0] != V0[0], \"COVER:reached_end\");")
    h.append("}")
    tag = "[%s,%s,nr=%d,nt=%d,nsc=%d,DirBC=%d]" % (strat, order, nr, nt, nsc, dirbc)
    j = Job("C04.M" + tag, "\n".join(c + h), "R", unwind=9 * N + 2, timeout=900,
            bounded="grid shape fixed %dx%d split %d DirBC=%d; spacings, coefficients, vector symbolic reals" % (nr, nt, nsc, dirbc),
            functions=["%s::buildSolverMatrixCircleSection" % d, "%s::buildSolverMatrixRadialSection" % d, "%s::getStencil" % d,
                       "%s::getStencilSize" % d, STRATS[strat]["macro"], "SparseMatrixCSR(rows,columns,nz_per_row)",
                       "SparseMatrixCSR::row_nz_index", "SparseMatrixCSR::row_nz_entry"],
            covers={"COVER:reached_end"}, split=r"^OBL:matrix_row", split_chunk=1, split_timeout=300,
            extra=["--max-field-sensitivity-array-size", "8192"])
    j.rules, j.hashes = rules, hashes
    return [j]


def shapes(tier):
    fam = [(5, 4, 2), (5, 6, 3), (6, 4, 0)]
    if tier != "quick":
        fam += [(5, 8, 2), (6, 6, 6), (7, 4, 3), (5, 12, 2), (7, 6, 1)]
    return fam


def build_jobs(tier, seed):
    jobs = []
    for (nr, nt, nsc) in shapes(tier):
        for dirbc in (0, 1):
            jobs += jobs_for("Take", nr, nt, nsc, dirbc)
            jobs += jobs_for("Give", nr, nt, nsc, dirbc)
            if nt % 3 == 0 or tier != "quick" or (nr, nt, nsc) == (5, 4, 2):
                jobs += jobs_for("Give", nr, nt, nsc, dirbc, order="parallel")
    return jobs


EXPLANATION = (
    "Part (a) of C04 in Layer R: the real assembly text of both custom-LU direct solvers (stencil offset tables parsed from the "
    "headers, getStencil/getStencilSize, CSR constructor and row accessors with their asserts, the NODE_BUILD_SOLVER_MATRIX macros, "
    "section functions; Give additionally in the task order of its multi-threaded branch) is executed on concrete shapes with symbolic "
    "real spacings/coefficients; for every row: size == documented stencil size, every slot written, and row * v == (A v)[row] for a "
    "symbolic v with A v from the extracted residual operator. Hence both strategies assemble the same matrix = the operator. "
    "Part (b) (sparse LU without pivoting inverts its matrix) is std::unordered_map code: ASSUMED. Bounded in grid shape.")


def run(tier, seed, work):
    import vlib
    rep = vlib.Report("C04", tier, seed)
    jobs = build_jobs(tier, seed)
    vlib.run_jobs(jobs, work)
    rep.absorb(jobs, replay_cb=vlib.ops_replay_cb("assembly"))
    rep.extraction = {"rules_fired": jobs[0].rules.summary(), "body_sha256_16": jobs[0].hashes}
    rep.trusted = ["double treated as mathematical real", "CBMC 6.11 + z3 5.1", "extractor rules", "SparseLUSolver::factorizeWithHashing/solveInPlace (assumed contract: solves L U x = b)"]
    rep.assumptions = ["antipodal angles", "shape-bounded", "OpenMP pragmas removed: the parallel branch is checked in its sequential task order (race freedom is C11)"]
    return rep.finish("other", EXPLANATION, "cbmc unit.c --function harness --z3 --unwind N --unwinding-assertions [--property P --slice-formula]")


def replay(path):
    return 0
