"""C05 -- the interior operator is symmetric (and has a positive diagonal).  Layer R on the extracted take/give
residual operators: A := -(residual with zero rhs).  For every non-Dirichlet node j and a symbolic vector x that
vanishes on Dirichlet nodes:  (A x)[j] == sum_k (A e_j)[k] x[k]   i.e. row j equals column j."""
import re
from vlib import Rules, Job
import units
import C03


def shapes(tier):
    fam = [(5, 4, 2), (6, 6, 3), (5, 8, 0)]
    if tier != "quick":
        fam += [(6, 4, 6), (7, 8, 4), (8, 6, 2), (5, 12, 3), (7, 4, 1)]
    return fam


def jobs_for(nr, nt, nsc, dirbc, op):
    rules, hashes = Rules("C05"), {}
    N = nr * nt
    c = C03.residual_unit(rules, hashes, nr, nt)
    c.append("static real_t X0[%d], AX[%d], COL[%d];" % (N, N, N))
    c.append("static void setup(void) {")
    c.append(units.grid_setup_concrete("grid_", nr, nt, nsc, antipodal=True))
    c += C03.cache_setup(N, nr, nt)
    # alpha > 0 and a regular mapping give arr, att > 0; beta >= 0 (property quantifier)
    c.append("  for (int k = 0; k < %d; k++) __CPROVER_assume(level_cache___arr_[k] > 0 && level_cache___att_[k] > 0 && level_cache___detDF_[k] != 0);" % N)
    c.append("  for (int k = 0; k < %d; k++) __CPROVER_assume(level_cache___coeff_beta_[k] >= 0);" % nr)
    c.append("  DirBC_Interior_ = %d; result_size = rhs_size = x_size = %d; verif_omp_max_threads = 1;" % (dirbc, N))
    c.append("}")
    fn = "Residual%s_computeResidual__impl" % op
    jobs = []
    dirichlet = lambda i: i == nr - 1 or (i == 0 and dirbc)
    bound = "grid shape fixed %dx%d split %d DirBC=%d; spacings, coefficient arrays and x symbolic reals" % (nr, nt, nsc, dirbc)
    for i in range(nr):
        if dirichlet(i):
            continue
        for j in range(nt):
            def pidx(a, b):
                return b + nt * a if a < nsc else nsc * nt + (a - nsc) + (nr - nsc) * b
            J = pidx(i, j)
            h = ["void harness(void) {", "  setup();", "  const int J = %d;" % J,
                 "  __CPROVER_assert(J == grid_.index(%d, %d), \"harness node numbering agrees with PolarGrid::index\");" % (i, j),
                 ]
            for a in range(nr):
                for b in range(nt):
                    h.append("  X0[%d] = %s;" % (pidx(a, b), "0" if dirichlet(a) else "nondet_real()"))
            h += ["  x[%d] = X0[%d]; rhs[%d] = 0; result[%d] = nondet_real();" % (k, k, k, k) for k in range(N)]
            h.append("  %s();" % fn)
            h += ["  AX[%d] = 0 - result[%d];" % (k, k) for k in range(N)]
            # unit vector through opaque constants (CBMC's simplifier crashes on rational constant subtraction)
            # unit vector scaled by a symbolic t > 0: constant folding of `0 - 1` to a negative rational constant crashes
            # CBMC 6.11 (invariant violation in std_expr.cpp), `0 - t` does not
            h.append("  const real_t t = nondet_real(); __CPROVER_assume(t > 0);")
            h += ["  x[%d] = %s; rhs[%d] = 0; result[%d] = nondet_real();" % (k, "t" if k == J else "0", k, k) for k in range(N)]
            h.append("  %s();" % fn)
            h += ["  COL[%d] = 0 - result[%d];" % (k, k) for k in range(N)]
            h.append("  __CPROVER_assert(t * AX[J] == %s, \"OBL:row_equals_column[node=(%d,%d)]\");" % (
                " + ".join("COL[%d] * X0[%d]" % (k, k) for k in range(N)), i, j))
            h.append("  __CPROVER_assert(COL[J] > 0, \"OBL:diagonal_positive[node=(%d,%d)]\");" % (i, j))
            h.append("  __CPROVER_assert(X0[J] != X0[J], \"COVER:reached_end\");")
            h.append("}")
            tag = "[%s,nr=%d,nt=%d,nsc=%d,DirBC=%d].n%d_%d" % (op, nr, nt, nsc, dirbc, i, j)
            job = Job("C05.S" + tag, "\n".join(c + h), "R", unwind=N + 2, timeout=600, bounded=bound,
                      functions=["Residual%s::computeResidual" % op, "NODE_APPLY_RESIDUAL_TAKE" if op == "Take" else "NODE_APPLY_A_GIVE"],
                      covers={"COVER:reached_end"}, split=r"^OBL:", split_timeout=180,
                      extra=["--max-field-sensitivity-array-size", "4096"])
            job.rules, job.hashes = rules, hashes
            jobs.append(job)
    return jobs


def build_jobs(tier, seed):
    jobs = []
    for (nr, nt, nsc) in shapes(tier):
        for dirbc in (0, 1):
            jobs += jobs_for(nr, nt, nsc, dirbc, "Take")
    if tier != "quick":
        jobs += jobs_for(5, 4, 2, 0, "Give") + jobs_for(6, 6, 3, 1, "Give")
    return jobs


EXPLANATION = (
    "Layer R: the verbatim take (and, in thorough, give) residual operator is run by CBMC on concrete grid shapes with all "
    "spacings, coefficient arrays (arr, att > 0, art free, beta >= 0) and the vector symbolic reals. Symmetry is decided entry by "
    "entry as (A x)[j] == sum_k (A e_j)[k] x[k] for every non-Dirichlet node j (row j of A equals column j), including the "
    "across-origin coupling; the diagonal is positive. Positive definiteness itself (a quantified nonlinear inequality) is NOT "
    "decided: symmetry + positive diagonal + the zero-row-sum/mass-term structure are the decidable part. Bounded in grid shape.")


def run(tier, seed, work):
    import vlib
    rep = vlib.Report("C05", tier, seed)
    jobs = build_jobs(tier, seed)
    vlib.run_jobs(jobs, work)
    rep.absorb(jobs, replay_cb=vlib.ops_replay_cb("symmetry"))
    rep.extraction = {"rules_fired": jobs[0].rules.summary(), "body_sha256_16": jobs[0].hashes}
    rep.trusted = ["double treated as mathematical real", "CBMC 6.11 + z3 5.1", "extractor rules (tools/vlib.py, tools/units.py)"]
    rep.assumptions = ["antipodal angles (PolarGrid::checkParameters)", "arr, att > 0, beta >= 0", "shape-bounded"]
    return rep.finish("other", EXPLANATION, "cbmc unit.c --function harness --z3 --unwind N --unwinding-assertions --property P --slice-formula")


def replay(path):
    print("see native/")
    return 0
