"""C13 -- see props/driver.py"""
import driver

EXPLANATION = "History independence of solve(): pre-state is ARBITRARY (every work vector token, residual/error history length, smoother switch in combined mode, counters). The real solve() text is verified to return the specification iterate S[k] (S[0] = start-up value, S[k+1] = Cycle(S[k]) with the smoother switch sequence F[k] that setup() establishes and the documented 0.7 rule), k = iteration count; residual and error histories contain exactly this solve's entries; right-hand sides untouched. Hence results are functions of options and problem data only. The first half of setup() (creating grids, caches and the Level objects: std::unique_ptr / std::vector code) is not extracted."


def run(tier, seed, work):
    return driver.run_property("C13", tier, seed, work, ("initializeSolution", "solve"), EXPLANATION)


def replay(path):
    import json
    print(json.dumps(json.load(open(path)), indent=1)[:4000])
    return 0
