"""Layer T unit for GMGPolar::solve, initializeSolution, converged (serves C01 second half, C09 start-up, C13, C20).

Contracts are written from the property statements:
  * initializeSolution (C09): zero start without FMG; with FMG the textbook nested iteration
        U[L-1] = A_{L-1}^{-1} f_{L-1};   U[l-1] = Cycle^{FMG_iterations}( FMGInterp(U[l]) )     (ghost arrays g_U, g_it)
    which is a function of the right-hand sides only.
  * solve (C01b, C13, C20): the returned iterate is the FUNCTION S[k] of the problem data (S[0] = start-up value,
    S[k+1] = Cycle(S[k]), smoother choice F[k] as setup() establishes it and the documented switching rule), k the
    iteration count; a stop before the limit happened on the residual of the returned iterate; no statistic reads an
    undefined or stale value.  Pre-state (work vectors, residual history, switch flag, counters) is ARBITRARY.
"""
import re
from vlib import Src, Rules, Job, ExtractError
import layert
import C10

MAXL = 8

SPEC = r"""
/* ---------- specification vocabulary of the driver ---------- */
double __CPROVER_uninterpreted_N2(tok_t);      /* l2_norm_squared */
double __CPROVER_uninterpreted_NINF(tok_t);    /* infinity_norm   */
double __CPROVER_uninterpreted_sqrt(double);
double __CPROVER_uninterpreted_pow(double, double);
int __CPROVER_uninterpreted_NODES(int level);
tok_t __CPROVER_uninterpreted_EXERR(tok_t u);  /* u_exact - u */
double __CPROVER_uninterpreted_ERR_W(tok_t), __CPROVER_uninterpreted_ERR_INF(tok_t);
#define v_sqrt(x) __CPROVER_uninterpreted_sqrt((double)(x))
/* scalar arithmetic of the driver is uninterpreted: quotient and literals are uninterpreted, only the order is interpreted */
double __CPROVER_uninterpreted_div(double, double);
double __CPROVER_uninterpreted_flit(int num, int den);
#define v_div(a, b) __CPROVER_uninterpreted_div((a), (b))
#define FLIT(n, d) __CPROVER_uninterpreted_flit((n), (d))
#define v_pow(x, y) __CPROVER_uninterpreted_pow((x), (y))
#define grid_numberOfNodes(l) __CPROVER_uninterpreted_NODES(l)
typedef struct { double first, second; } pair_t;

int residual_norm_type_;
_Bool absolute_tolerance__has, relative_tolerance__has; double absolute_tolerance__val, relative_tolerance__val;
_Bool exact_solution_, paraview_;
double mean_residual_reduction_factor_;
int verbose_;

/* residual_norms_ / exact_errors_: std::vector members, modelled by length + (unbounded) ghost contents */
/* residual_norms_: only the last two entries are ever read back; any other entry is an arbitrary value */
double g_rn_last, g_rn_prev; int g_rn_len; double nondet_double(void);
#define FEQ(a, b) ((a) == (b))
int g_ee_len; tok_t g_ee_last_sol;            /* iterate whose exact error was pushed last */
#define RN_PUSH(v) (g_rn_prev = g_rn_last, g_rn_last = (v), g_rn_len++)
#define RN_CLEAR() (g_rn_len = 0)
#define EE_PUSH(p) (g_ee_last_sol = g_exerr_of, g_ee_len++)
#define EE_CLEAR() (g_ee_len = 0)
static double RN_READ(int k) { __CPROVER_assert(0 <= k && k < g_rn_len, "OBL:residual_norms_ subscript within size[C20]"); return k == g_rn_len - 1 ? g_rn_last : (k == g_rn_len - 2 ? g_rn_prev : nondet_double()); }
_Bool g_thrown;
#define VERIF_THROW(what) __CPROVER_assert(0, "OBL:throw unreachable for validated options: " what "[C20]")

tok_t g_norm_of;      /* ghost: token whose norm was taken last */
tok_t g_exerr_of;     /* ghost: iterate handed to computeExactError last */
/* ghost snapshot taken by the stop test (contract of converged) */
_Bool g_conv_called, g_conv_result; tok_t g_conv_sol, g_conv_normtok; double g_conv_norm, g_conv_rel;

/* what setup() establishes for the level-0 smoother switch (src/GMGPolar/setup.cpp) */
#define FGS_SETUP(ex) ((ex) != ExtrapolationType_IMPLICIT_EXTRAPOLATION)
/* the residual of the discrete (extrapolated) system for iterate u -- the independent recomputation of C01 */
#define EXPECTED_RES(u, f0, f1) (extrapolation_ == ExtrapolationType_NONE ? RESID(0, f0, u) : EXRES(0, RESID(0, f0, u), RESID(1, f1, INJ(0, u))))
#define NORMSPEC(t) (residual_norm_type_ == ResidualNormType_EUCLIDEAN ? v_sqrt(__CPROVER_uninterpreted_N2(t)) : \
                     residual_norm_type_ == ResidualNormType_WEIGHTED_EUCLIDEAN ? v_div(v_sqrt(__CPROVER_uninterpreted_N2(t)), v_sqrt(grid_numberOfNodes(0))) : \
                     __CPROVER_uninterpreted_NINF(t))
#define CONVSPEC(n, rel) ((relative_tolerance__has && !((rel) > relative_tolerance__val)) || (absolute_tolerance__has && !((n) > absolute_tolerance__val)))
/* one cycle of the configured kind on level l */
#define CYCSPEC(kind, l, u, fgs) (((l) == 0 && extrapolation_ != ExtrapolationType_NONE) ? \
            EMG(kind, u, tok[HV(0, V_RHS)], tok[HV(1, V_RHS)], fgs) : MG(kind, l, u, tok[HV(l, V_RHS)]))
#define OPTIONS_VALID (2 <= number_of_levels_ && number_of_levels_ <= MAXL && 0 <= extrapolation_ && extrapolation_ <= 3 && \
            0 <= multigrid_cycle_ && multigrid_cycle_ <= 2 && 0 <= FMG_cycle_ && FMG_cycle_ <= 2 && \
            0 <= residual_norm_type_ && residual_norm_type_ <= 2)

/* ghost sequences (definitions are added instance-wise) */
tok_t g_U[MAXL + 1];                               /* FMG: approximation on level l after its cycles */
tok_t g_it[__CPROVER_constant_infinity_uint];      /* FMG: iterates of the cycles on the current level */
tok_t g_S[__CPROVER_constant_infinity_uint];       /* solve: iterate after k cycles */
_Bool g_F[__CPROVER_constant_infinity_uint];       /* solve: full_grid_smoothing_ in force for cycle k */
double g_N[__CPROVER_constant_infinity_uint];      /* solve: configured norm of the residual of S[k] */
"""

DRIVER_CONTRACTS = r"""
double l2_norm_squared(vec_t x)
__CPROVER_requires(VALID(x) && ALLOC(x))
__CPROVER_assigns(g_norm_of)
__CPROVER_ensures(g_norm_of == tok[x] && __CPROVER_return_value == __CPROVER_uninterpreted_N2(tok[x]))
;
double infinity_norm(vec_t x)
__CPROVER_requires(VALID(x) && ALLOC(x))
__CPROVER_assigns(g_norm_of)
__CPROVER_ensures(g_norm_of == tok[x] && __CPROVER_return_value == __CPROVER_uninterpreted_NINF(tok[x]))
;
"""

# hand-written stubs for the three callees whose contracts involve return values / ghost snapshots
STUBS = r"""
double l2_norm_squared(vec_t x) {
    __CPROVER_assert(VALID(x) && ALLOC(x), "OBL:precondition of l2_norm_squared");
    g_norm_of = tok[x]; return __CPROVER_uninterpreted_N2(tok[x]);
}
double infinity_norm(vec_t x) {
    __CPROVER_assert(VALID(x) && ALLOC(x), "OBL:precondition of infinity_norm");
    g_norm_of = tok[x]; return __CPROVER_uninterpreted_NINF(tok[x]);
}
pair_t computeExactError(int level, vec_t solution, vec_t error) {
    __CPROVER_assert(exact_solution_ != 0, "source assert: exact_solution_ != nullptr [C20]");
    __CPROVER_assert(VALID(solution) && VALID(error) && LEVEL_OF(solution) == level && LEVEL_OF(error) == level && solution != error,
                     "OBL:precondition of computeExactError");
    g_exerr_of = tok[solution];
    tok[error] = __CPROVER_uninterpreted_EXERR(tok[solution]);
    pair_t p = { __CPROVER_uninterpreted_ERR_W(tok[error]), __CPROVER_uninterpreted_ERR_INF(tok[error]) };
    return p;
}
"""
CONVERGED_STUB = r"""
/* contract of GMGPolar::converged (enforced on the real body in job driver.converged) + ghost snapshot of the test */
_Bool converged(const double residual_norm, const double relative_residual_norm) {
    g_conv_called = 1; g_conv_sol = tok[HV(0, V_SOLUTION)]; g_conv_normtok = g_norm_of;
    g_conv_norm = residual_norm; g_conv_rel = relative_residual_norm;
    g_conv_result = CONVSPEC(residual_norm, relative_residual_norm);
    return g_conv_result;
}
"""

# ---------------------------------------------------------------------------------------------------------------------
INIT_CONTRACT = r"""
__CPROVER_requires(OPTIONS_VALID)
__CPROVER_requires(full_grid_smoothing_ == FGS_SETUP(extrapolation_))
__CPROVER_assigns(__CPROVER_object_upto(&tok[HV(0, V_SOLUTION)], (MAXL) * sizeof(tok_t)))
__CPROVER_assigns(__CPROVER_object_upto(&tok[HV(0, V_RESIDUAL)], (MAXL) * sizeof(tok_t)))
__CPROVER_assigns(__CPROVER_object_upto(&tok[HV(0, V_ERROR_CORRECTION)], (MAXL) * sizeof(tok_t)))
__CPROVER_ensures(FMG_ || tok[HV(0, V_SOLUTION)] == ZERO)
__CPROVER_ensures(!FMG_ || tok[HV(0, V_SOLUTION)] == FMGSTART(full_grid_smoothing_))
"""
INIT_SPEC = r"""
/* FMGSTART(fgs): value of the nested iteration on level 0 (uninterpreted; its definition is unfolded in the proof of
   initializeSolution through the ghost arrays g_U / g_it) */
tok_t __CPROVER_uninterpreted_FMGSTART(_Bool fgs);
#define FMGSTART __CPROVER_uninterpreted_FMGSTART
"""
INIT_PROLOGUE = r"""
    /* ghost: the textbook nested iteration. g_U[L-1] = SOLVE(f_{L-1}); g_U[l-1] = Cycle^n(FMGI(g_U[l])) is added level by level */
    const int g_n = FMG_iterations_ < 0 ? 0 : FMG_iterations_;
    const _Bool g_fgs = full_grid_smoothing_;
    __CPROVER_assume(g_U[number_of_levels_ - 1] == SOLVE(number_of_levels_ - 1, tok[HV(number_of_levels_ - 1, V_RHS)]));
    __CPROVER_assume(FMGSTART(g_fgs) == g_U[0]);
"""
INIT_OUTER = (r"""
    __CPROVER_assigns(current_level, __CPROVER_object_whole(g_it), __CPROVER_object_upto(&tok[HV(0, V_SOLUTION)], (MAXL) * sizeof(tok_t)), __CPROVER_object_upto(&tok[HV(0, V_RESIDUAL)], (MAXL) * sizeof(tok_t)), __CPROVER_object_upto(&tok[HV(0, V_ERROR_CORRECTION)], (MAXL) * sizeof(tok_t)))
    __CPROVER_loop_invariant(0 <= current_level && current_level <= number_of_levels_ - 1)
    __CPROVER_loop_invariant(tok[HV(current_level, V_SOLUTION)] == g_U[current_level])
    __CPROVER_decreases(current_level)
""", r"""
            __CPROVER_assume(g_it[0] == FMGI(current_level, g_U[current_level]));     /* ghost definitions for this level */
            __CPROVER_assume(g_U[current_level - 1] == g_it[g_n]);
""")
INIT_INNER = (r"""
    __CPROVER_assigns(i, __CPROVER_object_upto(&tok[HV(0, V_SOLUTION)], (MAXL) * sizeof(tok_t)), __CPROVER_object_upto(&tok[HV(0, V_RESIDUAL)], (MAXL) * sizeof(tok_t)), __CPROVER_object_upto(&tok[HV(0, V_ERROR_CORRECTION)], (MAXL) * sizeof(tok_t)))
    __CPROVER_loop_invariant(0 <= i && (i <= FMG_iterations_ || FMG_iterations_ < 0))
    __CPROVER_loop_invariant(tok[HV(current_level - 1, V_SOLUTION)] == g_it[i])
    __CPROVER_decreases(FMG_iterations_ - i)
""", r"""
                __CPROVER_assume(g_it[i + 1] == CYCSPEC(FMG_cycle_, current_level - 1, g_it[i], g_fgs));
""")

# ---------------------------------------------------------------------------------------------------------------------
SOLVE_CONTRACT = r"""
__CPROVER_requires(OPTIONS_VALID)
/* setup() ran with the current options: it establishes the smoother switch, and only the combined mode ever changes it */
__CPROVER_requires(extrapolation_ == ExtrapolationType_COMBINED || full_grid_smoothing_ == FGS_SETUP(extrapolation_))
__CPROVER_assigns(__CPROVER_object_upto(&tok[HV(0, V_SOLUTION)], (MAXL) * sizeof(tok_t)))
__CPROVER_assigns(__CPROVER_object_upto(&tok[HV(0, V_RESIDUAL)], (MAXL) * sizeof(tok_t)))
__CPROVER_assigns(__CPROVER_object_upto(&tok[HV(0, V_ERROR_CORRECTION)], (MAXL) * sizeof(tok_t)))
__CPROVER_assigns(number_of_iterations_, full_grid_smoothing_, g_rn_len, g_ee_len)
"""
SOLVE_PROLOGUE = r"""
    /* ghost: problem data and the specification sequences S (iterates) and F (smoother switch) */
    const tok_t g_f0 = tok[HV(0, V_RHS)]; const tok_t g_f1 = tok[HV(1, V_RHS)];
    const _Bool g_tol = absolute_tolerance__has || relative_tolerance__has;
    __CPROVER_assume(g_F[0] == FGS_SETUP(extrapolation_));
    __CPROVER_assume(g_S[0] == (FMG_ ? FMGSTART(g_F[0]) : ZERO));
    g_conv_called = 0;
"""
SOLVE_LOOP = (r"""
    __CPROVER_assigns(number_of_iterations_, full_grid_smoothing_, g_rn_len, g_rn_last, g_rn_prev, g_ee_len, g_ee_last_sol, g_norm_of, g_exerr_of, g_conv_called, g_conv_result, g_conv_sol, g_conv_normtok, g_conv_norm, g_conv_rel, initial_residual_norm, current_residual_norm, current_relative_residual_norm, def_initial_residual_norm, def_current_residual_norm, def_current_relative_residual_norm, __CPROVER_object_upto(&tok[HV(0, V_SOLUTION)], (MAXL) * sizeof(tok_t)), __CPROVER_object_upto(&tok[HV(0, V_RESIDUAL)], (MAXL) * sizeof(tok_t)), __CPROVER_object_upto(&tok[HV(0, V_ERROR_CORRECTION)], (MAXL) * sizeof(tok_t)))
    __CPROVER_loop_invariant(0 <= number_of_iterations_ && (number_of_iterations_ <= max_iterations_ || max_iterations_ < 0))
    /* (C13) the iterate and the smoother switch are the specification sequences: functions of the problem data only */
    __CPROVER_loop_invariant(tok[HV(0, V_SOLUTION)] == g_S[number_of_iterations_])
    __CPROVER_loop_invariant(full_grid_smoothing_ == g_F[number_of_iterations_])
    /* bookkeeping of the residual history: exactly one entry per completed iteration of THIS solve */
    __CPROVER_loop_invariant(g_rn_len == (g_tol ? number_of_iterations_ : 0))
    __CPROVER_loop_invariant(!(g_tol && number_of_iterations_ > 0) ||
        FEQ(g_rn_last, g_N[number_of_iterations_ - 1]))
    __CPROVER_loop_invariant(g_ee_len == (exact_solution_ ? number_of_iterations_ : 0))
    __CPROVER_loop_invariant(def_initial_residual_norm == (g_tol && number_of_iterations_ > 0))
    __CPROVER_loop_invariant(def_current_residual_norm == (g_tol && number_of_iterations_ > 0))
    __CPROVER_loop_invariant(def_current_relative_residual_norm == (g_tol && number_of_iterations_ > 0))
    __CPROVER_loop_invariant(!(g_tol && number_of_iterations_ > 0) || FEQ(initial_residual_norm, g_N[0]))
    __CPROVER_loop_invariant(!g_conv_called || !g_conv_result)
    __CPROVER_decreases(max_iterations_ - number_of_iterations_)
""", r"""
        /* ghost: definition of the next elements of the specification sequences (documented switching rule of the
           combined mode: leave full-grid smoothing once the residual reduction factor exceeds 0.7) */
        { const int k = number_of_iterations_;
          __CPROVER_assume(g_N[k] == NORMSPEC(EXPECTED_RES(g_S[k], g_f0, g_f1)));            /* definition of g_N */
          __CPROVER_assume(g_N[k > 0 ? k - 1 : 0] == NORMSPEC(EXPECTED_RES(g_S[k > 0 ? k - 1 : 0], g_f0, g_f1)));
          __CPROVER_assume(g_N[0] == NORMSPEC(EXPECTED_RES(g_S[0], g_f0, g_f1)));
          const double nk = g_N[k];
          const double nkm1 = g_N[k > 0 ? k - 1 : 0];
          const _Bool sw = g_tol && k > 0 && (v_div(nk, nkm1) > 0.7) && extrapolation_ == ExtrapolationType_COMBINED && g_F[k];
          __CPROVER_assume(g_Fc[k] == (sw ? 0 : g_F[k]));                  /* switch in force for cycle k */
          __CPROVER_assume(g_F[k + 1] == g_Fc[k]);
          __CPROVER_assume(g_S[k + 1] == CYCSPEC(multigrid_cycle_, 0, g_S[k], g_Fc[k])); }
""")
SOLVE_POST = [
    # C01 second half
    ('!(number_of_iterations_ < max_iterations_) || (g_conv_called && g_conv_result)',
     "OBL:solve.stop_before_limit_passed_the_stop_test[C01]"),
    ('!(number_of_iterations_ < max_iterations_) || g_conv_sol == tok[HV(0, V_SOLUTION)]',
     "OBL:solve.no_change_of_solution_between_stop_test_and_return[C01]"),
    ('!(number_of_iterations_ < max_iterations_) || g_conv_normtok == EXPECTED_RES(tok[HV(0, V_SOLUTION)], g_f0, g_f1)',
     "OBL:solve.tested_residual_is_the_residual_of_the_returned_solution[C01]"),
    ('!(number_of_iterations_ < max_iterations_) || FEQ(g_conv_norm, NORMSPEC(g_conv_normtok))',
     "OBL:solve.tested_norm_is_the_configured_norm_of_that_residual[C01]"),
    ('!(number_of_iterations_ < max_iterations_ && number_of_iterations_ > 0) || FEQ(g_conv_rel, v_div(g_conv_norm, g_N[0]))',
     "OBL:solve.relative_norm_is_relative_to_the_initial_residual_of_this_solve[C01][C13]"),
    # C13: result is a function of problem data and options only
    ('tok[HV(0, V_SOLUTION)] == g_S[number_of_iterations_]',
     "OBL:solve.returned_iterate_is_a_function_of_problem_data_only[C13]"),
    ('tok[HV(0, V_RHS)] == g_f0 && tok[HV(1, V_RHS)] == g_f1', "OBL:solve.right_hand_sides_unchanged[C13]"),
    ('!g_tol || g_rn_len == number_of_iterations_ + (number_of_iterations_ < max_iterations_ ? 1 : 0)',
     "OBL:solve.residual_history_describes_this_solve_only[C13]"),
    ('!(exact_solution_ && max_iterations_ > 0) || g_ee_len == number_of_iterations_ + (number_of_iterations_ < max_iterations_ ? 1 : 0)',
     "OBL:solve.error_history_describes_this_solve_only[C13]"),
    # C20: statistics well defined
    ('!(exact_solution_ && g_ee_len > 0) || g_ee_last_sol == tok[HV(0, V_SOLUTION)]',
     "OBL:solve.exact_error_statistic_is_of_the_returned_solution[C13]"),
]


def absorb_filter(pid):
    def keep(label):
        tags = re.findall(r"\[(C\d+)\]", label)
        return (not tags) or (pid in tags)
    return keep


def build_jobs(which=("converged", "getters", "initializeSolution", "solve")):
    rules, hashes = Rules("driver"), {}
    pre = layert.prelude(MAXL) + C10.EXT_DEFS + C10.MG_DEFS + SPEC + INIT_SPEC + \
        "_Bool g_Fc[__CPROVER_constant_infinity_uint];\n"
    ops = layert.parse_contract_decls(pre)
    base = [pre]
    for o, (params, con) in ops.items():
        base.append(layert.contract_stub(o, params, con))
    for m in C10.STD:
        base.append(layert.contract_stub(m, C10.CYCLE_PARAMS, layert.parse_contract(C10.STD_CONTRACT.replace("@KIND@", C10.KIND[m]))))
    for m in C10.EXT:
        base.append(layert.contract_stub(m, C10.CYCLE_PARAMS, layert.parse_contract(C10.EXT_CONTRACT.replace("@KIND@", C10.EXT_KIND[m]))))
    base.append(STUBS)
    state = C10.STATE_SETUP + r"""
    { int v; FMG_iterations_ = v; } { int v; FMG_cycle_ = v; } { int v; multigrid_cycle_ = v; } { int v; max_iterations_ = v; }
    { int v; number_of_iterations_ = v; } { int v; residual_norm_type_ = v; } { _Bool v; exact_solution_ = v; } { _Bool v; paraview_ = v; }
    { _Bool v; absolute_tolerance__has = v; } { _Bool v; relative_tolerance__has = v; }
    { double v; absolute_tolerance__val = v; } { double v; relative_tolerance__val = v; }
    /* history: arbitrary residual / error history of earlier solves */
    { int v; __CPROVER_assume(0 <= v && v < 1000000); g_rn_len = v; } { int v; __CPROVER_assume(0 <= v && v < 1000000); g_ee_len = v; }
"""
    jobs = []
    if "converged" in which:
        c = list(base)
        c.append(layert.extract_driver("converged", rules, hashes, "", []))
        c.append(r"""
void harness_converged(void) {
    double n, rel;
    { _Bool v; absolute_tolerance__has = v; } { _Bool v; relative_tolerance__has = v; }
    { double v; absolute_tolerance__val = v; } { double v; relative_tolerance__val = v; }
    _Bool r = converged__impl(n, rel);
    /* from the property: stop iff the norm is not above the absolute tolerance or the relative norm not above the relative one;
       a disabled tolerance never stops */
    __CPROVER_assert(r == CONVSPEC(n, rel), "OBL:converged.returns_the_documented_stop_test[C01]");
    __CPROVER_assert(0, "COVER:converged.returned");
}""")
        j = Job("driver.converged", "\n".join(c), "M", entry="harness_converged", loop_contracts=False, timeout=300,
                unwind=4 * MAXL + 1, functions=["GMGPolar::converged"], covers={"COVER:converged.returned"})
        jobs.append(j)
    if "getters" in which:
        # GMGPolar::exactErrorWeightedEuclidean / exactErrorInfinity: back() only on a non-empty history
        c = list(base)
        gsrc = Src.get("src/GMGPolar/gmgpolar.cpp")
        for g, field in (("exactErrorWeightedEuclidean", "first"), ("exactErrorInfinity", "second")):
            f = gsrc.function("GMGPolar::" + g)
            hashes["GMGPolar::" + g] = __import__("vlib").sha(f["body"])
            b = f["body"]
            b = rules.sub("T7.ee_empty", r"\bexact_errors_\.empty\(\)", "(g_ee_len == 0)", b)
            b = rules.sub("T7.ee_back", r"return\s+exact_errors_\.back\(\)\.%s\s*;" % field,
                          '{ __CPROVER_assert(g_ee_len > 0, "OBL:%s.back_on_non_empty_vector[C20]"); return 1; }' % g, b, expect=1)
            b = rules.sub("T7.nullopt", r"return\s+std::nullopt\s*;", "return 0;", b, expect=1)
            if re.search(r"std::|::", b):
                raise ExtractError("unhandled construct in " + g)
            c.append("_Bool %s__impl(void)\n{%s}\n" % (g, b))
        c.append(r"""
void harness_getters(void) {
    { _Bool v; exact_solution_ = v; } { int v; __CPROVER_assume(0 <= v && v < 1000000); g_ee_len = v; }
    _Bool a = exactErrorWeightedEuclidean__impl(); _Bool b = exactErrorInfinity__impl();
    /* a value is reported exactly when an exact solution was set and an error was recorded */
    __CPROVER_assert(a == (exact_solution_ && g_ee_len > 0) && b == a, "OBL:exactError_getters.value_iff_recorded[C20]");
    __CPROVER_assert(0, "COVER:getters.returned");
}""")
        j = Job("driver.getters", "\n".join(c), "M", entry="harness_getters", loop_contracts=False, timeout=300,
                unwind=4 * MAXL + 1, functions=["GMGPolar::exactErrorWeightedEuclidean", "GMGPolar::exactErrorInfinity"],
                covers={"COVER:getters.returned"})
        jobs.append(j)
    if "initializeSolution" in which:
        c = list(base)
        c.append(CONVERGED_STUB)
        c.append(layert.extract_driver("initializeSolution", rules, hashes, INIT_PROLOGUE, [INIT_OUTER, INIT_INNER]))
        con = layert.parse_contract(INIT_CONTRACT)
        c.append(layert.enforce_harness("initializeSolution", [], con, state, extra_obl=[
            '__CPROVER_assert(!(FMG_ && number_of_levels_ == 2 && FMG_iterations_ <= 0) || tok[HV(0, V_SOLUTION)] == '
            'FMGI(1, SOLVE(1, tok[HV(1, V_RHS)])), "OBL:initializeSolution.two_levels_no_cycles_is_interpolated_coarse_solution[C09]");']))
        j = Job("driver.initializeSolution", "\n".join(c), "M", entry="harness_initializeSolution", loop_contracts=True,
                timeout=900, unwind=4 * MAXL + 1, functions=["GMGPolar::initializeSolution"],
                covers={"COVER:initializeSolution.returned"})
        jobs.append(j)
    if "solve" in which:
        # complete case split over (extrapolation used?, cycle type): six smaller verification conditions
        for ex, exname in (("extrapolation_ == ExtrapolationType_NONE", "noextrap"), ("extrapolation_ != ExtrapolationType_NONE", "extrap")):
            for cyc in (0, 1, 2):
                c = list(base)
                c.append(CONVERGED_STUB)
                c.append(layert.contract_stub("initializeSolution", [], layert.parse_contract(INIT_CONTRACT)))
                loop = SOLVE_LOOP
                probe = layert.extract_driver("solve", Rules("probe"), {}, "", ["/**/"],
                                              uninit=("initial_residual_norm", "current_residual_norm", "current_relative_residual_norm"))
                tracked = list(layert.extract_driver.tracked)
                if not tracked:
                    # the locals carry initialisers: no definedness ghosts exist
                    lc = "\n".join(l for l in loop[0].split("\n") if "def_" not in l or "__CPROVER_assigns" in l)
                    lc = re.sub(r",\s*def_\w+", "", lc)
                    loop = (lc, loop[1])
                c.append(layert.extract_driver("solve", rules, hashes, SOLVE_PROLOGUE, [loop],
                                               uninit=("initial_residual_norm", "current_residual_norm", "current_relative_residual_norm")))
                con = layert.parse_contract(SOLVE_CONTRACT)
                st = state + "    __CPROVER_assume(%s); __CPROVER_assume(multigrid_cycle_ == %d);   /* case split */\n" % (ex, cyc)
                h = layert.enforce_harness("solve", [], con, st,
                                           extra_obl=['__CPROVER_assert(%s, "%s");' % (e, n) for (e, n) in SOLVE_POST])
                # the postconditions mention the ghost constants of the prologue: recompute them in the harness
                h = h.replace("    solve__impl();", "    const tok_t g_f0 = tok[HV(0, V_RHS)]; const tok_t g_f1 = tok[HV(1, V_RHS)];\n"
                              "    const _Bool g_tol = absolute_tolerance__has || relative_tolerance__has;\n"
                              "    __CPROVER_assume(g_N[0] == NORMSPEC(EXPECTED_RES(g_S[0], g_f0, g_f1)));   /* definition of g_N[0] */\n    solve__impl();")
                c.append(h)
                j = Job("driver.solve[%s,cycle=%d]" % (exname, cyc), "\n".join(c), "M", entry="harness_solve", loop_contracts=True,
                        timeout=1500, unwind=4 * MAXL + 1, functions=["GMGPolar::solve"], covers={"COVER:solve.returned"})
                jobs.append(j)
    from vlib import rationalise_literals
    for j in jobs:
        j.rules, j.hashes = rules, hashes
        # scalars of the driver (norms, tolerances, factors) are mathematical reals: double := __CPROVER_rational
        # scalars of the driver (norms, tolerances, factors) only flow through copies, order comparisons and quotients: they are
        # modelled as an ordered uninterpreted sort (64-bit integers; quotient, literals, sqrt, pow uninterpreted)
        from vlib import FLOAT_LIT
        from math import gcd

        def lit(m):
            mant = m.group(1)
            ip, fp = (mant.split(".") + [""])[:2] if "." in mant else (mant, "")
            num, den = int((ip or "0") + fp), 10 ** len(fp)
            g = gcd(num, den) or 1
            return "FLIT(%d,%d)" % (num // g, den // g)
        txt = FLOAT_LIT.sub(lit, j.c_text)
        txt = re.sub(r"-\s*FLIT\((\d+),", r"FLIT(-\1,", txt)
        txt = re.sub(r"(FLIT\(-?\d+,\d+\))\s*/\s*(FLIT\(-?\d+,\d+\))", r"v_div(\1, \2)", txt)
        j.c_text = "#define double long\n" + txt
    return jobs


ASSUMED = ["operator contracts of contracts/layerT.h (smoothing, residual, transfer, direct solve, vector kernels) are ASSUMED here; "
           "they are the statements decided for the real operators in C03/C04/C06/C07/C08 (Layer R)",
           "cycle contracts (functional specification MG/EMG) are enforced on the real cycle bodies in check C10",
           "scalars of the driver (norms, tolerances, factors) are an ordered uninterpreted sort: quotient, sqrt, pow, literals uninterpreted",
           "setup() establishes full_grid_smoothing_ == (extrapolation != IMPLICIT_EXTRAPOLATION): precondition of solve(), DECIDED by the setup-tail job of C01/C13",
           "number of levels symbolic in 2..%d; iteration and smoothing counts unbounded" % MAXL]
TRUSTED = ["CBMC 6.11 (SAT back end)", "goto-instrument --apply-loop-contracts / --unwindset",
           "contract encoding of tools/layert.py (assert requires / havoc assigns / assume ensures; assume requires / assert ensures + frame)",
           "extractor rules T1-T11 (tools/layert.py)", "ghost definitions of specification sequences (recursive definitions, conservative)"]
DROPPED = ["timing statements (std::chrono, t_* accumulators)", "LIKWID markers", "verbose output blocks (if (verbose_ > 0) {std::cout...})",
           "writeToVTK calls", "dead block under `bool use_boundary_condition = false`"]


SETUP_KEEP = {   # which obligations of the setup-tail job (props/setup_tail.py) belong to which property
    "C01": r"OBL:(every level has a residual|exactly the coarsest|every smoothing level|the finest level has the extrapolated|full_grid_smoothing_|every operator is built|level index)",
    "C09": r"OBL:(injection goes|the rhs is injected|a rhs is discretised|level l < k|no rhs is built|level index|exactly the coarsest)",
    "C13": r"OBL:",
}


def run_property(pid, tier, seed, work, which, explanation):
    import vlib
    rep = vlib.Report(pid, tier, seed)
    jobs = build_jobs(which=which)
    vlib.run_jobs(jobs, work)
    rep.absorb(jobs, keep=absorb_filter(pid))
    if pid in SETUP_KEEP:
        import setup_tail
        sj = setup_tail.build_jobs(tier, seed)
        vlib.run_jobs(sj, work)
        pat = re.compile(SETUP_KEEP[pid])
        rep.absorb(sj, keep=lambda d: (not d.startswith("OBL:")) or bool(pat.match(d)))
        if pid == "C13":
            import C18
            lj = [C18.build_jobs("quick", seed)[0]]           # chooseNumberOfLevels: must not rewrite the level-cap option
            vlib.run_jobs(lj, work)
            rep.absorb(lj, replay_cb=C18.levels_replay_cb, keep=lambda d: (not d.startswith("OBL:")) or d.startswith("OBL:chooseNumberOfLevels_leaves"))
        explanation += (" Second half of setup() (props/setup_tail.py, plain CBMC, <= 8 levels, every extrapolation mode and FMG flag): the verbatim text "
                        "from the interpolation object to the end of setup() over level / operator / rhs tokens: per-level operators exist exactly as "
                        "solve() and the cycles need them, each built with the thread count of its level; full_grid_smoothing_ matches the mode (the "
                        "precondition of the solve() contract); the rhs is injected before it is discretised and ends l-fold injected + discretised "
                        "on every level that needs one (all levels with FMG); setup() (this part and chooseNumberOfLevels) leaves the user's options unchanged.")
    rep.extraction = {"rules_fired": jobs[0].rules.summary(), "body_sha256_16": jobs[0].hashes, "dropped": DROPPED}
    rep.trusted, rep.assumptions = TRUSTED, ASSUMED
    return rep.finish("other", explanation,
                      "goto-cc; goto-instrument --unwindset <stub loops>; goto-instrument --apply-loop-contracts; cbmc --unwind 33 --unwinding-assertions")
