"""C16 (bounded) -- sparse LU: factorizeWithHashing + solveInPlace return x with A x = b in exact arithmetic, for any
storage order of the rows of A, explicitly stored zeros, fill-in, and several right-hand sides one after another.

Layer R (complete in the real-valued data, BOUNDED in n, sparsity pattern and storage order): the verbatim bodies of
SparseLUSolver<T>::factorizeWithHashing and SparseLUSolver<T>::solveInPlace(double*) are extracted on every run.  The standard
containers they use are NOT verified code; they are replaced by a stated finite model (trusted, listed in the evidence):

  std::unordered_map<int,T> m            presence bit + value per key 0..n-1; m[k] inserts a value-initialised entry
                                         (operator[] semantics), m.find(k) == m.end() <=> key absent, it->second the value
  for (const auto& [k, v] : m)           visits the present keys in the order ORD[0..n-1], a permutation the harness picks
                                         (the iteration order of unordered_map is unspecified)
  std::vector<X> v; clear/resize/push_back/size     array + element count, capacity asserted

`std::exit` on a small pivot: reaching it is an obligation (the property promises a solution for every non-vanishing pivot): it must be
unreachable unless the TRUE pivot is below the guard's threshold (holds), and unreachable for any non-zero pivot (fails: finding F14)."""
import re
from vlib import Src, Rules, Job, ExtractError, common_body_rewrites, sha
import units, C04

HDR = "include/LinearAlgebra/sparseLUSolver.h"
CLS = "SparseLUSolver<T>"

MODEL = r"""
#define NMAX @N@
#define VCAP (NMAX * NMAX + 1)
/* ---- finite model of the std containers used by the two functions (trusted, see module docstring) ---- */
static int ORD[NMAX];
static _Bool row_values_has[NMAX]; static real_t row_values_val[NMAX];
static _Bool L_map_has[NMAX][NMAX], U_map_has[NMAX][NMAX]; static real_t L_map_val[NMAX][NMAX], U_map_val[NMAX][NMAX];
static real_t v_abs(real_t a) { return a < 0 ? -a : a; }
#define PIVOT_GUARD_ABORT(i) do { \
    __CPROVER_assert(v_abs(U_map_val[KEY(i)][i]) < RQ(1, 1000000) * RQ(1, 1000000), "OBL:solve_aborts_only_if_a_pivot_is_below_1e-12_in_magnitude"); \
    __CPROVER_assert(U_map_val[KEY(i)][i] == 0, "OBL:solve_never_aborts_for_a_nonvanishing_pivot"); __CPROVER_assume(0); } while (0)
static int KEY(int k) { __CPROVER_assert(k >= 0 && k < NMAX, "model: map key within 0..n-1"); return k; }
static int row_values_ins(int k) { KEY(k); if (!row_values_has[k]) { row_values_has[k] = 1; row_values_val[k] = 0; } return k; }
static int L_map_ins(int i, int k) { KEY(i); KEY(k); if (!L_map_has[i][k]) { L_map_has[i][k] = 1; L_map_val[i][k] = 0; } return k; }
static int U_map_ins(int i, int k) { KEY(i); KEY(k); if (!U_map_has[i][k]) { U_map_has[i][k] = 1; U_map_val[i][k] = 0; } return k; }
#define MAP1_CLEAR(m) do { for (int q_ = 0; q_ < NMAX; q_++) m##_has[q_] = 0; } while (0)
#define MAP2_CLEAR(m, n) do { __CPROVER_assert((n) <= NMAX, "harness capacity"); for (int q_ = 0; q_ < NMAX; q_++) for (int p_ = 0; p_ < NMAX; p_++) m##_has[q_][p_] = 0; } while (0)
static real_t L_values[VCAP], U_values[VCAP]; static int L_col_idx[VCAP], U_col_idx[VCAP], L_row_ptr[NMAX + 2], U_row_ptr[NMAX + 2];
static int L_values_size, U_values_size, L_col_idx_size, U_col_idx_size, L_row_ptr_size, U_row_ptr_size;
static _Bool factorized_;
#define VEC_PUSH(v) (__CPROVER_assert(v##_size < VCAP, "harness capacity"), v##_size++)
#define VEC_RESIZE_ZERO(v, n) do { __CPROVER_assert((n) <= NMAX + 2, "harness capacity"); for (int q_ = v##_size; q_ < (n); q_++) v[q_] = 0; v##_size = (n); } while (0)
#define VAT(v, i) v[(__CPROVER_assert((i) >= 0 && (i) < v##_size, "vector index within size()"), (i))]
#define CSR_row_nz_size(m, row) ((m).row_start_indices_[(row) + 1] - (m).row_start_indices_[(row)])
#define A solver_matrix
static real_t b[NMAX];
"""


def unit(rules, hashes, n):
    src = Src.get(HDR)
    C04.check_csr_accessors()
    c = [units.PRELUDE_R, "#define CSR_MAXNNZ %d\n#define CSR_MAXROWS %d" % (n * n, n), C04.CSR_PRELUDE, MODEL.replace("@N@", str(n))]
    # ---- factorizeWithHashing ----
    f = src.function("%s::factorizeWithHashing" % CLS, must_params=["A"])
    hashes["SparseLUSolver::factorizeWithHashing"] = sha(f["body"])
    t = f["body"]
    ff = src.function("%s::factorize" % CLS, must_params=["A"])
    if "".join(ff["body"].split()) != "factorizeWithHashing(A);":
        raise ExtractError("SparseLUSolver::factorize no longer forwards to factorizeWithHashing")
    t = rules.sub("C16.rows", r"\bA\.rows\(\)", "A.rows_", t, expect=1)
    t = rules.sub("C16.vec_clear", r"\b([LU]_(?:values|col_idx|row_ptr))\.clear\(\);", r"\1_size = 0;", t, expect=6)
    t = rules.sub("C16.vec_resize", r"\b([LU]_row_ptr)\.resize\(n \+ 1, 0\);", r"VEC_RESIZE_ZERO(\1, n + 1);", t, expect=2)
    t = rules.sub("C16.map_vector", r"std::vector<std::unordered_map<int, T>>\s+([LU]_map)\(n\);", r"MAP2_CLEAR(\1, n);", t, expect=2)
    t = rules.sub("C16.map_local", r"std::unordered_map<int, T>\s+row_values;", "MAP1_CLEAR(row_values);", t, expect=1)
    t = rules.sub("C16.csr_accessor", r"\bA\.row_nz_(size)\(i\)", r"CSR_row_nz_\1(A, i)", t, expect=1)
    t = rules.sub("C16.csr_accessor", r"\bA\.row_nz_(index|entry)\(", r"CSR_row_nz_\1(A, ", t, expect=2)
    t = rules.sub("C16.map_find", r"auto\s+it\s*=\s*row_values\.find\((\w+)\);", r"const int it = row_values_has[KEY(\1)] ? \1 : -1;", t, expect=1)
    t = rules.sub("C16.map_end", r"\bit\s*==\s*row_values\.end\(\)", "it == -1", t, expect=1)
    t = rules.sub("C16.map_iter_value", r"\bit->second\b", "row_values_val[it]", t, expect=3)
    t = rules.sub("C16.map_foreach2", r"for\s*\(const auto&\s*\[(\w+),\s*(\w+)\]\s*:\s*([LU]_map)\[(\w+)\]\)\s*\{",
                  r"for (int p_\1 = 0; p_\1 < NMAX; p_\1++) if (\3_has[\4][ORD[p_\1]]) { const int \1 = ORD[p_\1]; const real_t \2 = \3_val[\4][\1];", t, expect=3)
    t = rules.sub("C16.map_foreach1", r"for\s*\(const auto&\s*\[(\w+),\s*(\w+)\]\s*:\s*row_values\)\s*\{",
                  r"for (int p_\1 = 0; p_\1 < NMAX; p_\1++) if (row_values_has[ORD[p_\1]]) { const int \1 = ORD[p_\1]; const real_t \2 = row_values_val[\1];", t, expect=1)
    t = rules.sub("C16.map_subscript2", r"\b([LU]_map)\[(\w+)\]\[(\w+)\]", r"\1_val[\2][\1_ins(\2, \3)]", t, expect=4)
    t = rules.sub("C16.map_subscript1", r"\brow_values\[(\w+)\]", r"row_values_val[row_values_ins(\1)]", t, expect=2)
    t = rules.sub("C16.push_back", r"\b([LU]_(?:values|col_idx))\.push_back\(([^;]+)\);", r"\1[VEC_PUSH(\1)] = \2;", t, expect=4)
    t = rules.sub("C16.T_literal", r"\bT\((\d+)\)", r"RQ(\1,1)", t)
    t = rules.sub("C16.T_type", r"\bT\b(?!\s*\()", "real_t", t)
    t = rules.sub("C16.vec_subscript", r"\b([LU]_row_ptr)\[([^\]]+)\]", r"VAT(\1, \2)", t, expect=2)
    t = common_body_rewrites(t, rules, "R")
    if re.search(r"std::|auto\b|->|\.find\(|\.end\(", t):
        raise ExtractError("unhandled construct in factorizeWithHashing: %s" % re.search(r"std::\w+|auto\b|->|\.find\(|\.end\(", t).group(0))
    c.append("static void factorizeWithHashing(void)\n{%s}\n" % t)
    # ---- solveInPlace(double*) ----
    f = src.function("%s::solveInPlace" % CLS, must_params=["b"], occurrence=0)
    if "double* b" not in f["params_text"].replace("double *", "double* "):
        f = src.function("%s::solveInPlace" % CLS, must_params=["b"], occurrence=1)
    if "double" not in f["params_text"] or "Vector" in f["params_text"]:
        raise ExtractError("solveInPlace(double*) not found")
    hashes["SparseLUSolver::solveInPlace(double*)"] = sha(f["body"])
    t = f["body"]
    # the process-terminating branch: its condition stays verbatim; the branch body (message + std::exit) becomes two obligations
    # over the TRUE pivot of row i (ghost: the value the factorisation model holds), then the path ends (exit does not return)
    t = rules.sub("C16.pivot_guard_exit", r"if\s*\((std::abs\(diag\)\s*<\s*[^(){};]*)\)\s*\{[^{}]*std::exit\(EXIT_FAILURE\);\s*\}",
                  r"if (\1) { PIVOT_GUARD_ABORT(i); }", t, expect=1)
    t = rules.sub("C16.T", r"\bT\s+diag\b", "real_t diag", t, expect=1)
    t = rules.sub("C16.T_literal", r"\bT\((\d+)\)", r"RQ(\1,1)", t)
    t = rules.sub("C16.vec_subscript", r"\b([LU]_(?:row_ptr|values|col_idx))\[([^\]]+)\]", r"VAT(\1, \2)", t, expect=9)
    t = common_body_rewrites(t, rules, "R")
    if re.search(r"std::|auto\b|->", t):
        raise ExtractError("unhandled construct in solveInPlace")
    c.append("static void solveInPlace(void)   /* R3: the double* parameter b denotes the file-scope array b */\n{%s}\n" % t)
    # the Vector overload forwards after a size assert
    fv = [src.function("%s::solveInPlace" % CLS, must_params=["b"], occurrence=k) for k in (0, 1)]
    fv = [g for g in fv if "Vector" in g["params_text"]]
    if len(fv) != 1 or "".join(fv[0]["body"].split()) != "assert(b.size()==L_row_ptr.size()-1);solveInPlace(b.begin());":
        raise ExtractError("solveInPlace(Vector<T>&) changed")
    return c


# (name, n, rows): rows[i] = list of (column, kind) in STORAGE order; kind 'v' symbolic value, 'z' explicitly stored zero
def patterns(tier, seed=1):
    P = []
    P.append(("dense2", 2, [[(0, 'v'), (1, 'v')], [(1, 'v'), (0, 'v')]]))
    P.append(("diag1", 1, [[(0, 'v')]]))
    P.append(("dense3_unsorted", 3, [[(2, 'v'), (0, 'v'), (1, 'v')], [(1, 'v'), (2, 'v'), (0, 'v')], [(0, 'v'), (2, 'v'), (1, 'v')]]))
    # arrow matrix: eliminating column 0 fills the whole trailing block (dynamic fill-in)
    P.append(("arrow3_fillin", 3, [[(0, 'v'), (1, 'v'), (2, 'v')], [(1, 'v'), (0, 'v')], [(2, 'v'), (0, 'v')]]))
    P.append(("tridiag3_stored_zero", 3, [[(1, 'v'), (0, 'v')], [(2, 'v'), (0, 'v'), (1, 'v')], [(0, 'z'), (2, 'v'), (1, 'v')]]))
    P.append(("upper3_nonsym", 3, [[(0, 'v'), (2, 'v')], [(1, 'v'), (2, 'v')], [(2, 'v')]]))
    P.append(("lower3_nonsym", 3, [[(0, 'v')], [(0, 'v'), (1, 'v')], [(1, 'v'), (2, 'v'), (0, 'z')]]))
    if True:
        P.append(("arrow4_fillin", 4, [[(3, 'v'), (2, 'v'), (1, 'v'), (0, 'v')], [(0, 'v'), (1, 'v')], [(2, 'v'), (0, 'v')], [(0, 'v'), (3, 'v')]]))
        P.append(("tridiag4_unsorted", 4, [[(1, 'v'), (0, 'v')], [(2, 'v'), (1, 'v'), (0, 'v')], [(3, 'v'), (1, 'v'), (2, 'v')], [(3, 'v'), (2, 'v')]]))
        P.append(("cyclic4", 4, [[(3, 'v'), (0, 'v'), (1, 'v')], [(0, 'v'), (2, 'v'), (1, 'v')], [(1, 'v'), (3, 'v'), (2, 'v')], [(0, 'v'), (3, 'v'), (2, 'v')]]))
    if tier != "quick":
        P.append(("dense4", 4, [[(c, 'v') for c in (3, 1, 0, 2)], [(c, 'v') for c in (0, 1, 2, 3)], [(c, 'v') for c in (2, 3, 1, 0)], [(c, 'v') for c in (1, 0, 3, 2)]]))
        P.append(("tridiag5_unsorted", 5, [[(1, 'v'), (0, 'v')]] + [[(i + 1, 'v'), (i - 1, 'v'), (i, 'v')] for i in range(1, 4)] + [[(4, 'v'), (3, 'v')]]))
        # pseudo-random patterns (seeded): diagonal always stored, random off-diagonals, random storage order, some stored zeros
        import random
        rnd = random.Random(1000 + seed)
        for k in range(8):
            n = rnd.choice((4, 4, 5))
            rows = []
            for i in range(n):
                cols = [i] + [c for c in range(n) if c != i and rnd.random() < 0.45]
                rnd.shuffle(cols)
                rows.append([(c, 'z' if (c != i and rnd.random() < 0.15) else 'v') for c in cols])
            P.append(("random%d_seed%d" % (k, seed), n, rows))
    return P


def job_for(name, n, rows, order, nrhs=2):
    rules, hashes = Rules("C16"), {}
    c = unit(rules, hashes, n)
    h = ["static real_t AD[%d][%d], B[%d];" % (n, n, n), "void harness(void) {"]
    # iteration order of the hash maps: a fixed permutation per job (a symbolic permutation does not finish on z3)
    h.append("  " + " ".join("ORD[%d] = %d;" % (p, order[p]) for p in range(n)))
    h.append("  A.rows_ = %d; A.columns_ = %d;" % (n, n))
    for i in range(n):
        for j in range(n):
            h.append("  AD[%d][%d] = 0;" % (i, j))
    k = 0
    for i in range(n):
        h.append("  A.row_start_indices_[%d] = %d;" % (i, k))
        for (col, kind) in rows[i]:
            h.append("  A.column_indices_[%d] = %d; A.values_[%d] = %s; AD[%d][%d] = A.values_[%d];" % (k, col, k, "nondet_real()" if kind == 'v' else "0", i, col, k))
            k += 1
    h.append("  A.row_start_indices_[%d] = %d; A.nnz_ = %d;" % (n, k, k))
    h.append("  factorized_ = 0; L_values_size = U_values_size = L_col_idx_size = U_col_idx_size = L_row_ptr_size = U_row_ptr_size = 0;")
    h.append("  factorizeWithHashing();")
    h.append("  __CPROVER_assert(factorized_, \"OBL:factorized_set\");")
    # every pattern stores its diagonal, so row i of U must contain the pivot (i, i) whatever the values are (structural)
    for i in range(n):
        h.append("  __CPROVER_assert(U_map_has[%d][%d], \"OBL:row_of_U_contains_its_pivot[row=%d]\");" % (i, i, i))
    # the precondition of the property: an LU factorisation without pivoting exists <=> no pivot vanishes
    for i in range(n):
        h.append("  __CPROVER_assume(U_map_has[%d][%d] && U_map_val[%d][%d] != 0);" % (i, i, i, i))
    h.append("  __CPROVER_assert(L_row_ptr_size == %d && U_row_ptr_size == %d, \"OBL:row_pointer_arrays_have_n_plus_1_entries\");" % (n + 1, n + 1))
    for r in range(nrhs):
        for i in range(n):
            h.append("  B[%d] = nondet_real(); b[%d] = B[%d];" % (i, i, i))
        h.append("  solveInPlace();")
        for i in range(n):
            terms = " + ".join("AD[%d][%d] * b[%d]" % (i, j, j) for j in range(n))
            h.append("  __CPROVER_assert(%s == B[%d], \"OBL:A_x_equals_b[rhs=%d,row=%d]\");" % (terms, i, r, i))
    h.append("  __CPROVER_assert(b[0] != b[0], \"COVER:reached_end\");")
    h.append("}")
    j = Job("C16.lu[%s,n=%d,maporder=%s]" % (name, n, "".join(map(str, order))), "\n".join(c + h), "R", unwind=n * n + 3, timeout=900,
            bounded="n=%d, sparsity pattern and storage order `%s` fixed; hash-map iteration order fixed %s; all stored values and right-hand sides symbolic" % (n, name, order),
            functions=["SparseLUSolver::factorizeWithHashing", "SparseLUSolver::solveInPlace(double*)"],
            covers={"COVER:reached_end"}, split=r"^OBL:(A_x|solve_|row_of_U)|^COVER:", split_timeout=300,
            extra=["--no-div-by-zero-check", "--max-field-sensitivity-array-size", "4096"])
    j.rules, j.hashes, j.pattern, j.n = rules, hashes, rows, n
    return j


def orders(n, tier):
    import itertools
    allp = list(itertools.permutations(range(n)))
    if n <= 3:
        return allp
    if n == 4:
        return [allp[0], allp[-1], (1, 2, 3, 0), (2, 0, 3, 1), (3, 0, 1, 2), (1, 3, 0, 2)]
    return [allp[0], allp[-1], (2, 4, 1, 3, 0), (3, 0, 4, 1, 2)]


def build_jobs(tier, seed):
    return [job_for(name, n, rows, o) for (name, n, rows) in patterns(tier, seed) for o in orders(n, tier)]


EXPLANATION = (
    "Layer R, BOUNDED in dimension / sparsity pattern / storage order (listed), complete in the data: the verbatim bodies of "
    "SparseLUSolver::factorizeWithHashing and solveInPlace(double*) run on a CSR matrix whose rows are stored unsorted, with explicitly "
    "stored zeros, non-symmetric values and patterns that create fill-in; every stored value and right-hand side is a symbolic real; the "
    "iteration order of the hash maps ranges over all permutations of the keys for n <= 3 (six listed ones for n = 4). Obligations: A x == b row by row against the dense matrix the CSR "
    "denotes, for two right-hand sides solved one after another on the same factorisation, under the property's precondition that no "
    "pivot vanishes; every vector / CSR index in bounds. std::unordered_map and std::vector are replaced by a stated finite model "
    "(assumed, not verified). The process-terminating guard of solveInPlace is an obligation: it may fire only for a true pivot below 1e-12 in magnitude (holds) "
    "and never for a non-zero pivot (fails for 0 < |pivot| < 1e-12: known finding F14). `to rounding accuracy` is decided in exact arithmetic only; scaling over many orders of magnitude is a "
    "rounding statement and is not decided. Dimensions beyond the listed ones are NOT decided.")


def lu_replay_cb(job, key, label, rec):
    """CBMC's SMT back end does not print the real values of a counterexample; the replay runs the real SparseMatrixCSR /
    SparseLUSolver on the job's dimension, pattern and storage order with a deterministic battery of diagonally dominant value
    sets, rows scaled over 10^-6 .. 10^14 (native/replay_lu.cpp)"""
    import vlib
    rows, n = getattr(job, "pattern", None), getattr(job, "n", 0)
    if rows is None:
        return None
    args = [n]
    for i in range(n):
        args.append(len(rows[i]))
        for (col, kind) in rows[i]:
            args += [col, 1 if kind == 'v' else 0]
    return vlib.native_driver("replay_lu", args)


def run(tier, seed, work):
    import vlib
    rep = vlib.Report("C16", tier, seed)
    jobs = build_jobs(tier, seed)
    vlib.run_jobs(jobs, work)
    rep.absorb(jobs, replay_cb=lu_replay_cb)
    rep.extraction = {"rules_fired": jobs[0].rules.summary(), "body_sha256_16": jobs[0].hashes,
                      "dropped": ["std::cerr message before std::exit (the exit itself is an obligation + end of path)", "move/copy special members (see C15)"]}
    rep.trusted = ["double treated as mathematical real", "CBMC 6.11 + z3 5.1", "extractor rules C16.*",
                   "finite model of std::unordered_map<int,T> (presence bit + value, operator[] inserts, iteration order = one permutation of the keys per job) and std::vector (array + size)",
                   "CSR accessors (text checked against csr_matrix.h; storage invariant decided by C15)"]
    rep.assumptions = ["bounded in n, pattern, storage order (listed)", "no vanishing pivot (the property's precondition)", "column indices of a row distinct"]
    return rep.finish("other", EXPLANATION, "cbmc unit.c --function harness --z3 --unwind N --unwinding-assertions [--property P --slice-formula]")


def replay(path):
    return 0
