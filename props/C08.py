"""C08 -- grid transfer: R = P^T, convex weights, injection o prolongation = id, linear reproduction.

Layer R, whole operators on concrete grid-shape pairs, all spacings and vectors symbolic reals.
The operator text is the verbatim body of Interpolation::apply{Prolongation,Restriction,
ExtrapolatedProlongation,ExtrapolatedRestriction,Injection} and the two FINE_NODE_* macros."""
import itertools, re
from vlib import Src, Rules, Job, common_body_rewrites, fn_to_macro, sha, ExtractError
import units

FILES = {
    "applyProlongation": ("src/Interpolation/prolongation.cpp", ["FINE_NODE_PROLONGATION"], "coarse_from"),
    "applyRestriction": ("src/Interpolation/restriction.cpp", [], "fine_from"),
    "applyExtrapolatedProlongation": ("src/Interpolation/extrapolated_prolongation.cpp",
                                      ["FINE_NODE_EXTRAPOLATED_PROLONGATION"], "coarse_from"),
    "applyExtrapolatedRestriction": ("src/Interpolation/extrapolated_restriction.cpp", [], "fine_from"),
    "applyInjection": ("src/Interpolation/injection.cpp", [], "fine_from"),
}


FMG_FILE = {"applyFMGInterpolation": ("src/Interpolation/fmg_interpolation.cpp", ["FINE_NODE_FMG_INTERPOLATION"], "coarse_from")}


def interpolation_unit(layer, rules, hashes, files=None, pre=None):
    """Extract the five operators; vector/level reference parameters become the file-scope objects
    fromLevel, toLevel, result, x (R3)."""
    out = []
    for fn, (rel, macros, binding) in (files or FILES).items():
        src = Src.get(rel)
        for mname in macros:
            mt = src.macro(mname)
            hashes[mname] = sha(mt)
            if pre:
                mt = pre(mname, mt, rules)
            out.append(common_body_rewrites(mt, rules, layer))
        f = src.function("Interpolation::" + fn, must_params=["fromLevel", "toLevel", "result", "x"])
        hashes["Interpolation::" + fn] = sha(f["body"])
        # R2: the two alias declarations bind grid names to levels; the binding is checked, then dropped
        # because coarseGrid / fineGrid are the two PolarGrid instances of the prelude.
        want = {"coarse_from": ("fromLevel", "toLevel"), "fine_from": ("toLevel", "fromLevel")}[binding]
        body = f["body"]
        body = rules.sub("R2.alias.coarseGrid(%s)" % fn,
                         r"const\s+PolarGrid\s*&\s*coarseGrid\s*=\s*%s\.grid\(\)\s*;" % want[0], "", body, expect=1)
        body = rules.sub("R2.alias.fineGrid(%s)" % fn,
                         r"const\s+PolarGrid\s*&\s*fineGrid\s*=\s*%s\.grid\(\)\s*;" % want[1], "", body, expect=1)
        if re.search(r"PolarGrid\s*&", body):
            raise ExtractError("unexpected PolarGrid alias left in " + fn)
        if pre:
            body = pre(fn, body, rules)
        f["body"] = body
        e = units.emit_function_globals("Interpolation_" + fn, f, rules, layer)
        out.append(e["text"])
        out.append(e["wrapper"])
    return "\n".join(out)


LEVEL_PRELUDE = r"""
struct Level { int level_depth_; };
#define level_depth() level_depth_          /* Level::level_depth() returns level_depth_ (include/Level/level.h) */
static struct Level fromLevel, toLevel;      /* R3: reference parameters of the operators */
static const struct Level lvlF = { 3 }, lvlC = { 4 };
#define omp_set_num_threads(n) ((void)0)   /* dropped: thread-count call (no effect on sequential text) */
"""


def call_op(op, frm, to, res, nres, arg, narg):
    """harness text for `op(frm, to, res, arg)`: bind the reference parameters, run, copy the result out"""
    t = ["  fromLevel = %s; toLevel = %s; x_size = %d; result_size = %d;" % (frm, to, narg, nres)]
    t += ["  x[%d] = %s[%d];" % (k, arg, k) for k in range(narg)]
    t.append("  %s(fromLevel, toLevel, result, x);" % op)
    t += ["  %s[%d] = result[%d];" % (res, k, k) for k in range(nres)]
    return t


def node(i, j):
    return "(%d,%d)" % (i, j)


def fidx(shape, i, j):
    """index of node (i,j) under the circle/radial numbering -- used only to NAME obligations and to
    address harness arrays; computed by the extracted PolarGrid::index at verification time."""
    return "fineGrid.index(%d,%d)" % (i, j)


def build_jobs(tier, seed):
    jobs = []
    shapes = shape_family(tier)
    for (nr, nt, nsc_f, nsc_c) in shapes:
        for pair in ("std", "ext"):
            jobs += jobs_for_shape(nr, nt, nsc_f, nsc_c, pair)
    return jobs


def shape_family(tier):
    fam = [(5, 4, 2, 1)]
    if tier == "quick":
        # every branch class: nsc_f in {0, interior odd/even, nr}; coarse split 0/interior/all; pow2 and non-pow2 ntheta
        fam += [(5, 6, 3, 2), (7, 4, 0, 0), (5, 4, 5, 3), (7, 6, 3, 1)]
    else:
        # quick family plus further shape pairs (the exhaustive sweep over all split pairs planned first needs many hours and was dropped)
        fam += [(5, 6, 3, 2), (7, 4, 0, 0), (5, 4, 5, 3), (7, 6, 3, 1), (7, 8, 4, 2), (9, 4, 6, 3), (5, 10, 2, 1), (7, 12, 5, 3), (9, 6, 9, 5), (5, 8, 0, 0), (9, 8, 3, 2)]
    return fam


def jobs_for_shape(nr, nt, nsc_f, nsc_c, pair):
    rules = Rules("C08")
    hashes = {}
    ncr, nct = (nr + 1) // 2, nt // 2
    NF, NC = nr * nt, ncr * nct
    P = "Interpolation_applyProlongation" if pair == "std" else "Interpolation_applyExtrapolatedProlongation"
    R = "Interpolation_applyRestriction" if pair == "std" else "Interpolation_applyExtrapolatedRestriction"
    c = [units.PRELUDE_R, units.POLARGRID_STRUCT, LEVEL_PRELUDE]
    c.append(units.polargrid_instance("fineGrid", "R", rules, nr, nt, hashes))
    c.append(units.polargrid_instance("coarseGrid", "R", rules, ncr, nct, hashes))
    c.append("#define grid() dummy_grid_member_never_used\n")
    c.append(interpolation_unit("R", rules, hashes))
    c.append("#define NF %d\n#define NC %d" % (NF, NC))
    c.insert(3, "static real_t result[%d], x[%d]; static int result_size, x_size;\n" % (NF, NF))
    c.append("static real_t XC[NC], PX[NF], YF[NF], RY[NC], IJ[NC];")
    c.append("#define XC_size NC\n#define PX_size NF\n#define YF_size NF\n#define RY_size NC\n#define IJ_size NC")
    c.append("static real_t Pm[NF][NC], Rm[NC][NF];")
    c.append("static void setup(void) {")
    c.append(units.grid_setup_concrete("fineGrid", nr, nt, nsc_f))
    # the coarse grid is the every-second-node subgrid (contract of coarseningGrid, C17)
    c.append(units.grid_setup_concrete("coarseGrid", ncr, nct, nsc_c))
    c.append("}")
    tag = "%s[nr=%d,nt=%d,nscF=%d,nscC=%d]" % (pair, nr, nt, nsc_f, nsc_c)
    bound = "grid shape fixed: fine %dx%d split %d, coarse %dx%d split %d; all spacings/vectors symbolic reals" % (
        nr, nt, nsc_f, ncr, nct, nsc_c)
    unwind = max(nr, nt) + 2
    fns = ["Interpolation::" + k for k in FILES] + ["PolarGrid::index", "PolarGrid::wrapThetaIndex",
                                                    "PolarGrid::radialSpacing", "PolarGrid::angularSpacing"]
    jobs = []

    # ---- jobs A.f: row f of P (symbolic coarse vector) against column f of R (unit vector e_f) -------
    # <R e_f, x> == <e_f, P x> for every fine node f and symbolic x is R == P^T entry by entry;
    # the entries R e_f [c] are the weights, so non-negativity and unit row sums are asserted on them.
    for f in range(NF):
        h = ["void harness(void) {", "  setup();"]
        h += ["  XC[%d] = nondet_real();" % k for k in range(NC)]
        h += call_op(P, "lvlC", "lvlF", "PX", NF, "XC", NC)
        h += ["  YF[%d] = %d;" % (k, 1 if k == f else 0) for k in range(NF)]
        h += call_op(R, "lvlF", "lvlC", "RY", NC, "YF", NF)
        h.append("  __CPROVER_assert(PX[%d] == %s, \"OBL:R_eq_Pt[fine=%d]\");" % (
            f, " + ".join("RY[%d] * XC[%d]" % (k, k) for k in range(NC)), f))
        h.append("  __CPROVER_assert(%s, \"OBL:P_weights_nonneg[fine=%d]\");" % (
            " && ".join("RY[%d] >= 0" % k for k in range(NC)), f))
        if pair == "std":
            h.append("  __CPROVER_assert(%s == 1, \"OBL:P_weights_sum_to_one[fine=%d]\");" % (
                " + ".join("RY[%d]" % k for k in range(NC)), f))
        h.append("  __CPROVER_assert(XC[0] != XC[0], \"COVER:reached_end\");")
        h.append("}")
        jobs.append(Job("C08.A.%s.f%d" % (tag, f), "\n".join(c + h), "R", unwind=unwind, timeout=300, bounded=bound,
                        functions=fns, covers={"COVER:reached_end"}, group="C08.A." + tag, split=r"^OBL:",
                        extra=["--max-field-sensitivity-array-size", "4096"]))

    # ---- job B: symbolic coarse vector: injection(P x) == x ; copies at coarse nodes; linear reproduction ----
    h = ["void harness(void) {", "  setup();"]
    for k in range(NC):
        h.append("  XC[%d] = nondet_real();" % k)
    h += call_op(P, "lvlC", "lvlF", "PX", NF, "XC", NC)
    h += call_op("Interpolation_applyInjection", "lvlF", "lvlC", "IJ", NC, "PX", NF)
    for k in range(NC):
        h.append("  __CPROVER_assert(IJ[%d] == XC[%d], \"OBL:injection_after_prolongation_is_identity[coarse=%d]\");" % (k, k, k))
    h.append("  __CPROVER_assert(IJ[0] != XC[0], \"COVER:reached_end\");")
    h.append("}")
    jobs.append(Job("C08.B.%s" % tag, "\n".join(c + h), "R", unwind=unwind, timeout=300, bounded=bound,
                    functions=fns, covers={"COVER:reached_end"},
                    extra=["--max-field-sensitivity-array-size", "4096"]))

    # ---- job C: linear reproduction in r and in theta (standard pair only) ---------------------------
    if pair == "std":
        for mode in (("midpoint", "general") if (nr, nt, nsc_f, nsc_c) == (5, 4, 2, 1) else ("midpoint",)):
            h = ["void harness(void) {", "  setup();", "  real_t a = nondet_real(), b = nondet_real(), g = nondet_real();"]
            if mode == "midpoint":
                for i in range(0, nr - 1, 2):
                    h.append("  __CPROVER_assume(fineGrid__radial_spacings_[%d] == fineGrid__radial_spacings_[%d]);" % (i, i + 1))
                for j in range(0, nt, 2):
                    h.append("  __CPROVER_assume(fineGrid__angular_spacings_[%d] == fineGrid__angular_spacings_[%d]);" % (j, j + 1))
            # coarse data: linear in r and theta at the coarse nodes = fine nodes (2i, 2j)
            for i in range(ncr):
                for j in range(nct):
                    h.append("  XC[coarseGrid.index(%d,%d)] = a + b * fineGrid.radius(%d) + g * fineGrid.theta(%d);" % (i, j, 2 * i, 2 * j))
            h += call_op(P, "lvlC", "lvlF", "PX", NF, "XC", NC)
            for i in range(nr):
                for j in range(nt):
                    if j == nt - 1:
                        # the seam: the upper coarse neighbour is theta = 2 pi, stored as node 0 -> linear in theta only with g == 0
                        h.append("  __CPROVER_assert(g != 0 || PX[fineGrid.index(%d,%d)] == a + b * fineGrid.radius(%d), "
                                 "\"OBL:lin_repro_%s[fine=(%d,%d)]\");" % (i, j, i, mode, i, j))
                    else:
                        h.append("  __CPROVER_assert(PX[fineGrid.index(%d,%d)] == a + b * fineGrid.radius(%d) + g * fineGrid.theta(%d), "
                                 "\"OBL:lin_repro_%s[fine=(%d,%d)]\");" % (i, j, i, j, mode, i, j))
            h.append("  __CPROVER_assert(a != a, \"COVER:reached_end\");")
            h.append("}")
            jobs.append(Job("C08.C.%s.%s" % (mode, tag), "\n".join(c + h), "R", unwind=unwind, timeout=300, split=r"^OBL:lin_repro",
                            bounded=bound, functions=fns, covers={"COVER:reached_end"},
                            extra=["--max-field-sensitivity-array-size", "4096"]))
    for j in jobs:
        j.hashes, j.rules = hashes, rules
    return jobs


EXPLANATION = (
    "Layer R (DESIGN 2.3): the verbatim bodies of Interpolation::applyProlongation, applyRestriction, "
    "applyExtrapolatedProlongation, applyExtrapolatedRestriction, applyInjection, the FINE_NODE_* macros and the "
    "PolarGrid inline index/spacing functions are re-extracted from /repo on every run and executed by CBMC on "
    "concrete grid-shape pairs with every radial/angular spacing and every vector entry a symbolic real "
    "(__CPROVER_rational -> SMT Real, z3 5.1). Obligations: R == P^T entry by entry (unit vectors through the real "
    "loops), P weights >= 0 and rows summing to one, injection(P x) == x for symbolic x, linear reproduction in r "
    "and theta, plus every source assert, array bound and division-by-zero check inside the extracted text. "
    "Complete in the real-valued data, BOUNDED in the grid shape (shape list in coverage.shapes); not an "
    "unbounded proof. `optimised == reference` (applyProlongation0 etc.) is not decided (C++ MultiIndex/std::array "
    "text is outside the extractor).")


def run(tier, seed, work):
    import vlib
    rep = vlib.Report("C08", tier, seed)
    jobs = build_jobs(tier, seed)
    vlib.run_jobs(jobs, work)
    rep.absorb(jobs, replay_cb=vlib.ops_replay_cb("transfer"))
    rep.extraction = {"rules_fired": jobs[0].rules.summary(), "body_sha256_16": jobs[0].hashes,
                      "dropped": ["#include lines", "#pragma omp lines (sequential text is verified)",
                                  "omp_set_num_threads(...) (defined away)", "comments"]}
    rep.trusted = ["double treated as mathematical real (Layer R)", "CBMC 6.11 symex + SMT2 back end", "z3 5.1",
                   "extractor rules R2-R9 (tools/vlib.py, tools/units.py)",
                   "coarse grid = every-second-node subgrid of the fine grid (contract of coarseningGrid, C17)"]
    rep.assumptions = ["spacings > 0, R0 > 0 (PolarGrid::checkParameters)", "shape-bounded: see coverage.shapes",
                       "OpenMP pragmas removed: sequential semantics (race freedom is C11)"]
    rc = rep.finish("other", EXPLANATION, "cbmc unit.c --function harness --z3 --unwind N --unwinding-assertions")
    ev_add("C08", {"shapes": [list(s) for s in shape_family(tier)]})
    return rc


def ev_add(pid, extra):
    import json, os, vlib
    p = os.path.join(vlib.OUT, "evidence", pid + ".json")
    ev = json.load(open(p))
    ev["coverage"].update(extra)
    json.dump(ev, open(p, "w"), indent=1)


def replay(path):
    print("replay: see native/ (not yet wired for C08)")
    return 0
