"""C06 -- smoothing is an exact zebra line relaxation of the same operator (see props/smoother.py)."""
import re
from vlib import Rules, Job
import units, C03, C04, smoother


def idx(nr, nt, nsc, a, b):
    return b + nt * a if a < nsc else nsc * nt + (a - nsc) + (nr - nsc) * b


def jobs_for(cls, nr, nt, nsc, dirbc, assembly="sequential", only_lines=None):
    rules, hashes = Rules("C06"), {}
    N = nr * nt
    c = smoother.smoother_unit(cls, rules, hashes, nr, nt)
    if assembly == "parallel":
        c.append(smoother.parallel_assembly(cls, rules, hashes))
    cfg = smoother.CFG[cls]
    c.append("static real_t X0[%d], F0[%d], XF[%d], AXF[%d];" % (N, N, N, N))
    c.append("static void setup(void) {")
    c.append(units.grid_setup_concrete("grid_", nr, nt, nsc, antipodal=True))
    c += C03.cache_setup(N, nr, nt, 1, 1)
    c.append("  DirBC_Interior_ = %d; result_size = rhs_size = x_size = temp_size = %d; verif_omp_max_threads = 1;" % (dirbc, N))
    c += smoother.allocation(cls, nr, nt, nsc, dirbc, rules)
    if assembly == "parallel":
        c.append("  %s_assemble_parallel_order();   /* task order of the multi-threaded branch of buildAscMatrices */" % cls)
    else:
        c.append("  for (int i_r = 0; i_r < grid_.numberSmootherCircles(); i_r++) %s_buildAscCircleSection__impl(i_r);" % cls)
        c.append("  for (int i_theta = 0; i_theta < grid_.ntheta(); i_theta++) %s_buildAscRadialSection__impl(i_theta);" % cls)
    c.append("}")
    # lines of the smoother: circles i_r in [0, nsc) start at index(i_r, 0); radial lines i_theta start at index(nsc, i_theta)
    lines = [("circle", a, idx(nr, nt, nsc, a, 0), [(a, b) for b in range(nt)]) for a in range(nsc)] + \
            [("radial", b, idx(nr, nt, nsc, nsc, b), [(a, b) for a in range(nsc, nr)]) for b in range(nt)]
    jobs = []
    if only_lines is not None:
        lines = [l for l in lines if (l[0], l[1]) in only_lines]
    for (sweep, threads) in (cfg["sweeps"][:1] if assembly == "parallel" else cfg["sweeps"]):
     for (kind, li, start, nodes) in lines:
         last_colour = (kind == "radial" and li % 2 == 1)
         for mode in ([0, 1] if last_colour else [1]):
             h = ["void harness(void) {", "  setup();", "  g_mode = %d; g_target_start = %d; g_target_seen = 0; verif_omp_max_threads = %d;" % (mode, start, threads)]
             h += ["  X0[%d] = nondet_real(); F0[%d] = nondet_real();" % (k, k) for k in range(N)]
             if mode == 1:
                 # x0 is the exact discrete solution on the target line's rows: (A x0)[k] == f[k]
                 h += ["  x[%d] = X0[%d]; rhs[%d] = F0[%d]; result[%d] = nondet_real();" % (k, k, k, k, k) for k in range(N)]
                 h.append("  ResidualTake_computeResidual__impl();")
                 h += ["  __CPROVER_assume(result[%d] == 0);" % idx(nr, nt, nsc, a, b) for (a, b) in nodes]
             h += ["  x[%d] = X0[%d]; rhs[%d] = F0[%d]; temp[%d] = nondet_real();" % (k, k, k, k, k) for k in range(N)]
             h.append("  %s_%s__impl();" % (cls, sweep))
             h.append("  __CPROVER_assert(g_target_seen, \"OBL:the_sweep_solves_the_target_line\");")
             if mode == 0:
                 h += ["  XF[%d] = x[%d];" % (k, k) for k in range(N)]
                 h += ["  rhs[%d] = F0[%d]; result[%d] = nondet_real();" % (k, k, k) for k in range(N)]
                 h.append("  ResidualTake_computeResidual__impl();")
                 for (a, b) in nodes:
                     if a == nr - 1:
                         h.append("  __CPROVER_assert(XF[%d] == F0[%d], \"OBL:dirichlet_node_carries_boundary_data[node=(%d,%d)]\");" % (idx(nr, nt, nsc, a, b), idx(nr, nt, nsc, a, b), a, b))
                     h.append("  __CPROVER_assert(result[%d] == 0, \"OBL:residual_vanishes_on_last_updated_colour[node=(%d,%d)]\");" % (idx(nr, nt, nsc, a, b), a, b))
             h.append("  __CPROVER_assert(X0[0] != X0[0], \"COVER:reached_end\");")
             h.append("}")
             tag = "[%s%s.%s,%s,%s%d,nr=%d,nt=%d,nsc=%d,DirBC=%d]" % (cls, ".parallelAssembly" if assembly == "parallel" else "", sweep, "relax" if mode == 0 else "fixedpoint", kind, li, nr, nt, nsc, dirbc)
             j = Job("C06." + tag, "\n".join(c + h), "R", unwind=max(N, 5 * nt) + 2, timeout=900,
                     bounded="grid shape fixed %dx%d split %d DirBC=%d; all real data symbolic" % (nr, nt, nsc, dirbc),
                     functions=["%s::%s" % (cls, m) for m in ("buildAscCircleSection", "buildAscRadialSection", "applyAscOrthoCircleSection",
                                                               "applyAscOrthoRadialSection", "solveCircleSection", "solveRadialSection", sweep)],
                     covers={"COVER:reached_end"}, split=r"^OBL:(residual|exact|dirichlet)|^COVER:", split_chunk=6, split_timeout=300,
                     skip_batch=(len(jobs) > 0),
                     extra=["--max-field-sensitivity-array-size", "8192"])
             j.rules, j.hashes = rules, hashes
             jobs.append(j)
    return jobs


def shapes(tier):
    fam = [(5, 4, 2, (0, 1)), (6, 4, 3, (0, 1)), (5, 12, 2, (0,))]
    if tier != "quick":
        fam += [(7, 8, 4, (0,)), (6, 8, 2, (1,)), (7, 4, 3, (0, 1)), (6, 12, 3, (1,))]
    return fam


CLASSES = ("SmootherTake", "SmootherGive")


def build_jobs(tier, seed):
    jobs = []
    for (nr, nt, nsc, bcs) in shapes(tier):
        for dirbc in bcs:
            for cls in CLASSES:
                jobs += jobs_for(cls, nr, nt, nsc, dirbc)
    # the line matrices assembled in the task order of the multi-threaded branch of buildAscMatrices (give strategy): ntheta % 3 == 0 and == 1
    par = [(5, 12, 2, 0, [("radial", b) for b in (0, 1, 2, 3, 4, 11)] + [("circle", 0), ("circle", 1)]), (5, 4, 2, 1, [("radial", b) for b in range(4)] + [("circle", 1)])]
    if tier != "quick":
        par += [(6, 8, 3, 0, [("radial", b) for b in range(8)] + [("circle", a) for a in range(3)]), (5, 12, 2, 1, [("radial", b) for b in range(12)])]
    for (nr, nt, nsc, dirbc, ol) in par:
        jobs += jobs_for("SmootherGive", nr, nt, nsc, dirbc, assembly="parallel", only_lines=ol)
    return jobs


EXPLANATION = (
    "Layer R on the real smoother text (build*Asc*Section + NODE_BUILD macros, applyAscOrtho*Section + NODE_APPLY_ASC_ORTHO macros, "
    "solve*Section, the sequential sweep driver; both strategies), concrete grid shapes, all real data symbolic. The only replaced "
    "callee is the line solve, used through its contract (C14: returns the solution of the stored line system; sparse LU of the inner "
    "circle: assumed). One target line per job: (fixed point) on the exact discrete solution the current iterate already solves "
    "every line system the sweep sets up (A_sc x_line == f - A_sc_ortho x, the splitting A = A_sc + A_sc_ortho of the SAME operator "
    "the residual applies), hence an exact line solve leaves it unchanged; (exact relaxation) after the sweep the residual of the "
    "independent residual operator vanishes on every line of the colour updated last, with all other lines holding ARBITRARY values; "
    "Dirichlet nodes carry the boundary data; the sweep visits every line. give == take follows because both strategies satisfy the "
    "same line contracts for the same operator. Energy-norm monotonicity is a consequence of SPD + exact block relaxation (textbook, "
    "not decided). The OpenMP for-loop variant of SmootherGive (smoothingForLoop) is covered as task order only in C11/C12. Bounded in "
    "grid shape.")


def run(tier, seed, work):
    import vlib
    rep = vlib.Report("C06", tier, seed)
    jobs = build_jobs(tier, seed)
    vlib.run_jobs(jobs, work)
    rep.absorb(jobs, replay_cb=vlib.ops_replay_cb("smoother"))
    rep.extraction = {"rules_fired": jobs[0].rules.summary(), "body_sha256_16": jobs[-1].hashes,
                      "dropped": ["#pragma omp", "per-thread solver scratch Vector declarations", "MUMPS branches (build has GMGPOLAR_USE_MUMPS off)",
                                  "allocation part of buildAscMatrices (performed by the harness, text checked)"]}
    rep.trusted = ["double treated as mathematical real", "CBMC 6.11 + z3 5.1", "extractor rules", "line-solve contracts (C14 decided, sparse LU assumed)",
                   "non-singularity of the line systems (SPD, C05) for `solution unique`"]
    rep.assumptions = ["antipodal angles", "both caches on for the take strategy", "shape-bounded"]
    return rep.finish("other", EXPLANATION, "cbmc unit.c --function harness --z3 --unwind N --unwinding-assertions [--property P --slice-formula]")


def replay(path):
    return 0
